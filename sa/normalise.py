"""Reference-relative normalisation of the extracted facts.

The rule tables are anchored on the function and variable names confirmed on
the reference tree (tables/locals.json, written by tools/gen_locals.py).  A
behaviour-preserving edit can move anchored code without changing what any
path does:

  1. a local or parameter is renamed            -> alpha_normalise (program.py)
  2. a statement run is hoisted into a NEW helper function
                                                -> inline_new_functions
  3. a sub-expression is named by a NEW local   -> inline_new_locals

(2) and (3) only ever touch functions / locals that do not exist in the
reference table, so they are the identity on the reference tree, and both are
semantics-preserving program transformations on the CFG (procedure inlining at
statement-level call sites; copy propagation of an available pure definition),
never a weakening of a rule.  Where a transformation does not apply (call in a
condition, recursive helper, definition killed on some path) the facts are left
as they are and the rules see the code as written.
"""
import copy

from .program import frozen_locals, walk, strip_casts, vars_in, fields_in, base_var

MAX_INLINE_BLOCKS = 400
MAX_ROUNDS = 3
ASSIGN_OPS = ("=", "+=", "-=", "*=", "/=", "%=", "<<=", ">>=", "&=", "|=", "^=")


# --------------------------------------------------------------------------
# helpers
# --------------------------------------------------------------------------

def _fkey(jf):
    return "%s:%s" % (jf["file"], jf["name"])


def _all_names(jf):
    names = {p["n"] for p in jf["params"]}
    for b in jf["blocks"]:
        for e in b["ev"]:
            if e.get("e") == "decl":
                names.add(e["n"])
    return names


def _max_call_id(jf):
    m = 0
    for b in jf["blocks"]:
        for n in _walk_any(b):
            if isinstance(n.get("id"), int) and (n.get("k") in ("call", "atomic") or n.get("e") in ("call", "atomic")):
                m = max(m, n["id"])
    return m


def _walk_any(t):
    """Every dict below t (events, trees, terminators)."""
    st = [t]
    while st:
        n = st.pop()
        if isinstance(n, dict):
            yield n
            st.extend(v for v in n.values() if isinstance(v, (dict, list)))
        elif isinstance(n, list):
            st.extend(v for v in n if isinstance(v, (dict, list)))


def _pure(t):
    for n in walk(t):
        k = n.get("k")
        if k in ("call", "atomic", "init", "str"):
            return False
        if k == "un" and n.get("op") in ("++", "--"):
            return False
        if k == "bin" and n.get("op") in ASSIGN_OPS:
            return False
        if k == "bin" and n.get("op") == ",":
            return False
    return True


# --------------------------------------------------------------------------
# 2. inlining of new helper functions
# --------------------------------------------------------------------------

def _is_new(jf, frozen):
    return _fkey(jf) not in frozen


def _calls_name(jf, name):
    for b in jf["blocks"]:
        for e in b["ev"]:
            if e.get("e") == "call" and e.get("f") == name:
                return True
    return False


def _var_types(jf):
    t = {p["n"]: p["t"] for p in jf["params"]}
    for b in jf["blocks"]:
        for e in b["ev"]:
            if e.get("e") == "decl":
                t.setdefault(e["n"], e.get("t"))
    return t


def _reads_var(e, name):
    """Does event e read variable `name` (anything but being the plain target of `=` / a declaration)?"""
    for kk, v in e.items():
        if kk in ("l", "e", "mac", "t", "n"):
            continue
        if kk == "lhs" and e.get("e") == "asg" and e.get("op") == "=":
            l = strip_casts(v)
            if isinstance(l, dict) and l.get("k") == "var":
                continue
        for n in _walk_any(v) if isinstance(v, (dict, list)) else ():
            if n.get("k") == "var" and n.get("n") == name:
                return True
    return False


def _writes_var_fully(e, name):
    if e.get("e") == "decl" and e.get("n") == name:
        return True
    if e.get("e") == "asg" and e.get("op") == "=":
        l = strip_casts(e.get("lhs"))
        return isinstance(l, dict) and l.get("k") == "var" and l.get("n") == name
    return False


def _live_from(F, bi, k, name):
    """Is variable `name` read on some path starting at event k of block index bi before it is overwritten?"""
    blocks = {b["id"]: b for b in F["blocks"]}
    start = F["blocks"][bi]
    seen = set()
    st = [(start["id"], k)]
    while st:
        bid, i = st.pop()
        b = blocks[bid]
        dead = False
        for e in b["ev"][i:]:
            if _reads_var(e, name):
                return True
            if _writes_var_fully(e, name):
                dead = True
                break
        if dead:
            continue
        t = b.get("term")
        if isinstance(t, dict) and any(n.get("k") == "var" and n.get("n") == name for n in _walk_any(t)):
            return True
        for s2 in b["succ"]:
            if isinstance(s2, int) and s2 not in seen:
                seen.add(s2)
                st.append((s2, 0))
    return False


def _inline_site(F, bi, k, G, form):
    """Splice a copy of G into F at event k of block index bi."""
    B = F["blocks"][bi]
    call = B["ev"][k]
    ids = [b["id"] for b in F["blocks"]]
    base = max(ids) + 1
    idmap = {b["id"]: base + i for i, b in enumerate(G["blocks"])}
    cont_id = base + len(G["blocks"])
    callbase = _max_call_id(F) + 1
    fnames = _all_names(F)
    gnames = _all_names(G)
    ren = {}
    ftypes = _var_types(F)
    gtypes = _var_types(G)
    ftaken = _addr_taken(F)
    for n in sorted(gnames):
        if n in fnames and n not in ftaken and ftypes.get(n) == gtypes.get(n) and ftypes.get(n) is not None \
                and "[" not in ftypes[n] and not _live_from(F, bi, k + 1, n):
            # the caller's variable of that name and type is dead at the call: the helper's local
            # can reuse it (this is what the code looked like before the statements were hoisted)
            ren[n] = n
            continue
        nn = n if n not in fnames else "%s::%s" % (G["name"], n)
        while nn in fnames:
            nn += "'"
        ren[n] = nn
        fnames.add(nn)

    threaded = None
    follow = B["ev"][k + 1] if k + 1 < len(B["ev"]) else None
    # `x = g(..)` / `T x = g(..)` where g returns one of its own locals v on every non-constant
    # return: g's v becomes the caller's x (x is overwritten by the call anyway, and the
    # arguments are bound before g's body runs), so a status or fold computed in the helper is
    # the caller's variable again
    if form in ("assign", "init") and follow is not None:
        tgt = None
        if form == "assign":
            l = strip_casts(follow.get("lhs"))
            if isinstance(l, dict) and l.get("k") == "var" and l.get("kind") == "local":
                tgt = l["n"]
        else:
            tgt = follow.get("n")
        if tgt is not None:
            rv = set()
            plain = True
            for gb in G["blocks"]:
                for ge in gb["ev"]:
                    if ge.get("e") == "ret" and ge.get("x") is not None:
                        x = strip_casts(ge["x"])
                        if isinstance(x, dict) and x.get("k") == "var" and x.get("kind") in ("local", "param"):
                            rv.add(x["n"])
                        elif not (isinstance(x, dict) and x.get("k") == "int"):
                            plain = False
            gaddr = _addr_taken(G)
            if plain and len(rv) == 1:
                v = next(iter(rv))
                pnames = [p["n"] for p in G["params"]]
                if v in pnames:
                    # a status threaded through the helper (`x = g(.., x)` with g returning that parameter): the
                    # parameter is the caller's variable
                    a = strip_casts(call.get("a", [])[pnames.index(v)]) if pnames.index(v) < len(call.get("a", [])) else None
                    if not (isinstance(a, dict) and a.get("k") == "var" and a.get("n") == tgt):
                        v = None
                    else:
                        threaded = v
                if v is not None:
                    fnames.discard(ren[v])
                    ren[v] = tgt
    rest_from = k + 1
    ret_mode = ("drop", None)
    if form == "assign":
        ret_mode = ("asg", follow)
        rest_from = k + 2
    elif form == "init":
        ret_mode = ("decl", follow)
        rest_from = k + 2
    elif form == "ret":
        ret_mode = ("ret", follow)
        rest_from = k + 2

    def conv(node):
        node = copy.deepcopy(node)
        for n in _walk_any(node):
            if n.get("k") == "var" and n.get("kind") in ("param", "local") and n.get("n") in ren:
                n["n"] = ren[n["n"]]
                n["kind"] = "local"
            if isinstance(n.get("id"), int) and (n.get("k") in ("call", "atomic") or n.get("e") in ("call", "atomic")):
                n["id"] = n["id"] + callbase
            if n.get("e") == "decl" and n.get("n") in ren:
                n["n"] = ren[n["n"]]
        return node

    new_blocks = []
    for gb in G["blocks"]:
        nb = conv({kk: vv for kk, vv in gb.items() if kk not in ("id", "succ")})
        nb["id"] = idmap[gb["id"]]
        succ = []
        for s in gb["succ"]:
            if isinstance(s, int):
                succ.append(cont_id if s == G["exit"] else idmap[s])
            else:
                succ.append(s)
        nb["succ"] = succ
        ev = []
        for e in nb["ev"]:
            if e.get("e") == "ret":
                mode, tmpl = ret_mode
                x = e.get("x")
                if mode == "asg" and x is not None:
                    xs, ls = strip_casts(x), strip_casts(tmpl.get("lhs"))
                    if isinstance(xs, dict) and isinstance(ls, dict) and xs.get("k") == "var" and ls.get("k") == "var" \
                            and xs.get("n") == ls.get("n"):
                        continue          # the helper's result variable is the caller's variable already
                    a = copy.deepcopy(tmpl)
                    a["rhs"] = x
                    a["l"] = e["l"]
                    ev.append(a)
                elif mode == "decl" and x is not None:
                    xs = strip_casts(x)
                    if isinstance(xs, dict) and xs.get("k") == "var" and xs.get("n") == tmpl.get("n"):
                        continue
                    d = copy.deepcopy(tmpl)
                    d["init"] = x
                    ev.append(d)
                elif mode == "ret":
                    r = copy.deepcopy(tmpl)
                    if x is not None:
                        r["x"] = x
                    r["l"] = e["l"]
                    ev.append(r)
                elif x is not None and not _pure(x):
                    ev.append({"e": "void", "l": e["l"], "x": x})
                continue
            ev.append(e)
        nb["ev"] = ev
        if nb.get("term") is not None and nb["term"].get("k") == "ReturnStmt":
            nb.pop("term")
        new_blocks.append(nb)
    # the copy of G's exit block is unreachable now; keep it out
    new_blocks = [b for b in new_blocks if b["id"] != idmap[G["exit"]]]

    cont = {kk: vv for kk, vv in B.items() if kk not in ("id", "ev")}
    cont["id"] = cont_id
    cont["ev"] = B["ev"][rest_from:]
    cont.pop("label", None)
    binds = []
    for p, a in zip(G["params"], call.get("a", [])):
        if threaded is not None and p["n"] == threaded:
            continue
        a0 = strip_casts(a)
        if isinstance(a0, dict) and a0.get("k") == "var" and a0.get("n") == ren[p["n"]]:
            continue       # the parameter reuses the caller's (dead) variable of that name and is bound to it: nothing to bind
        binds.append({"e": "decl", "l": call["l"], "n": ren[p["n"]], "t": p["t"], "init": copy.deepcopy(a), "inlined_param": True})
    B["ev"] = B["ev"][:k] + binds
    B["succ"] = [idmap[G["entry"]]]
    B.pop("term", None)
    B.pop("noret", None)
    F["blocks"].extend(new_blocks)
    F["blocks"].append(cont)
    F.setdefault("inlined", []).append({"callee": G["name"], "at": call["l"]})
    return ren


def _site_form(B, k):
    e = B["ev"][k]
    use = e.get("use")
    nxt = B["ev"][k + 1] if k + 1 < len(B["ev"]) else None
    if use == "discard":
        return "discard"
    if nxt is None:
        return None

    def is_this_call(t):
        t = strip_casts(t)
        return isinstance(t, dict) and t.get("k") == "call" and t.get("id") == e.get("id")
    if use == "assign" and nxt.get("e") == "asg" and nxt.get("op") == "=" and is_this_call(nxt.get("rhs")):
        return "assign"
    if use == "init" and nxt.get("e") == "decl" and is_this_call(nxt.get("init")):
        return "init"
    if use == "ret" and nxt.get("e") == "ret" and is_this_call(nxt.get("x")):
        return "ret"
    return None


def inline_new_functions(facts, frozen):
    done = []
    if not frozen:
        return done
    for u in facts:
        new = {}
        for jf in u["functions"]:
            if _is_new(jf, frozen) and not jf.get("cfg_failed") and len(jf["blocks"]) <= MAX_INLINE_BLOCKS \
                    and not _calls_name(jf, jf["name"]):
                new.setdefault(jf["name"], jf)
        if not new:
            continue
        pristine = {n: copy.deepcopy(g) for n, g in new.items()}
        for _ in range(MAX_ROUNDS):
            changed = False
            for F in u["functions"]:
                if F.get("cfg_failed"):
                    continue
                again = True
                guard = 0
                while again and guard < 50:
                    again = False
                    guard += 1
                    for bi, B in enumerate(F["blocks"]):
                        for k, e in enumerate(B["ev"]):
                            if e.get("e") == "call" and e.get("f") in pristine and e.get("f") != F["name"] and not e.get("fp"):
                                G = pristine[e["f"]]
                                if len(G["params"]) != len(e.get("a", [])):
                                    continue
                                form = _site_form(B, k)
                                if form is None:
                                    continue
                                _inline_site(F, bi, k, G, form)
                                done.append((F["file"], F["name"], G["name"], e["l"]))
                                again = changed = True
                                break
                        if again:
                            break
            if not changed:
                break
        # a new static helper whose every call site was inlined is dead code of the normalised program
        for name, g in list(new.items()):
            if not g.get("static"):
                continue
            used = False
            for F in u["functions"]:
                if F is g:
                    continue
                for b in F["blocks"]:
                    for n in _walk_any(b):
                        if (n.get("k") == "call" or n.get("e") == "call") and n.get("f") == name:
                            used = True
                        if n.get("k") == "fn" and n.get("n") == name:
                            used = True
            if not used:
                u["functions"] = [F for F in u["functions"] if F is not g]
    return done


# --------------------------------------------------------------------------
# 3. copy propagation of new locals
# --------------------------------------------------------------------------

def _addr_taken(jf):
    out = set()
    for b in jf["blocks"]:
        for n in _walk_any(b):
            if n.get("k") == "un" and n.get("op") == "&":
                v = _storage_root(n.get("x"))
                if v:
                    out.add(v)
    return out


def _value_reads(E):
    """Sub-trees of E whose value is read: `&lv` reads only what computing the
    address of lv needs (the base pointer), not lv itself."""
    out = []
    st = [E]
    while st:
        n = st.pop()
        if not isinstance(n, dict):
            continue
        if n.get("k") == "un" and n.get("op") == "&":
            x = strip_casts(n.get("x"))
            while isinstance(x, dict) and x.get("k") in ("mem", "idx"):
                if x.get("k") == "idx":
                    st.append(x.get("i"))
                    b = strip_casts(x.get("b"))
                    if isinstance(b, dict) and b.get("k") == "var":
                        x = None
                        break
                    st.append(b)
                    x = None
                    break
                if x.get("arrow"):
                    st.append(x.get("b"))
                    x = None
                    break
                x = strip_casts(x.get("b"))
            if isinstance(x, dict) and x.get("k") == "un" and x.get("op") == "*":
                st.append(x.get("x"))
            continue
        out.append(n)
        for kk in ("b", "x", "l", "r", "c", "i", "fp"):
            v = n.get(kk)
            if isinstance(v, dict):
                st.append(v)
        for kk in ("a", "items"):
            v = n.get(kk)
            if isinstance(v, list):
                st.extend(v)
    return out


def _reads_pointer_memory(E, local_arrays):
    for n in _value_reads(E):
        k = n.get("k")
        if k == "mem":
            if n.get("arrow"):
                return True
            b = base_var(n)
            if b is None:
                return True
        elif k == "un" and n.get("op") == "*":
            return True
        elif k == "idx":
            b = strip_casts(n.get("b"))
            if not (isinstance(b, dict) and b.get("k") == "var" and b.get("n") in local_arrays):
                return True
        elif k == "var" and n.get("kind") not in ("param", "local"):
            return True
    return False


def _reads_deref(E, local_arrays):
    for n in _value_reads(E):
        k = n.get("k")
        if k == "un" and n.get("op") == "*":
            return True
        if k == "idx":
            b = strip_casts(n.get("b"))
            if not (isinstance(b, dict) and b.get("k") == "var" and b.get("n") in local_arrays):
                return True
    return False


def _event_store(e):
    """(vars written, fields written, writes through a pointer) of one event."""
    k = e.get("e")
    if k == "asg":
        lhs = strip_casts(e.get("lhs"))
    elif k == "inc":
        lhs = strip_casts(e.get("x"))
    elif k == "decl":
        return {e["n"]}, set(), False
    else:
        return set(), set(), False
    if not isinstance(lhs, dict):
        return set(), set(), True
    if lhs.get("k") == "var":
        return {lhs["n"]}, set(), False
    v = base_var(lhs)
    return ({v} if v else set()), set(fields_in(lhs)), True


def _storage_root(x):
    """The variable whose own storage the lvalue x lives in (v, v.f, v[i] of an
    array variable), or None when x is reached through a pointer."""
    x = strip_casts(x)
    while isinstance(x, dict):
        k = x.get("k")
        if k == "var":
            return x["n"]
        if k == "mem" and not x.get("arrow"):
            x = strip_casts(x.get("b"))
        elif k == "idx":
            b = strip_casts(x.get("b"))
            if isinstance(b, dict) and b.get("k") == "var" and "[" in (b.get("t") or ""):
                return b["n"]
            return None
        else:
            return None
    return None


def _call_exposed_vars(e):
    """Variables whose storage a call can write: &v arguments and array-typed
    variables passed (decay)."""
    out = set()
    for a in e.get("a", []) or []:
        for n in walk(a):
            if n.get("k") == "un" and n.get("op") == "&":
                v = _storage_root(n.get("x"))
                if v:
                    out.add(v)
            if n.get("k") == "var" and "[" in (n.get("t") or ""):
                out.add(n["n"])
    return out


def _simplify(t):
    """(&X)->f => X.f and *(&X) => X, in place below t."""
    if isinstance(t, dict):
        for kk, v in list(t.items()):
            if isinstance(v, dict):
                _simplify(v)
                if v.get("k") == "mem" and v.get("arrow"):
                    b = strip_casts(v.get("b"))
                    if isinstance(b, dict) and b.get("k") == "un" and b.get("op") == "&":
                        v["b"] = b["x"]
                        v["arrow"] = False
                elif v.get("k") == "un" and v.get("op") == "*":
                    b = strip_casts(v.get("x"))
                    if isinstance(b, dict) and b.get("k") == "un" and b.get("op") == "&":
                        t[kk] = b["x"]
            elif isinstance(v, list):
                for j, x in enumerate(v):
                    if isinstance(x, dict):
                        h = {"_": x}
                        _simplify(h)
                        v[j] = h["_"]


def inline_new_locals(jf, frozen_names):
    """Copy propagation of pure single definitions of locals that do not exist
    in the reference function."""
    if jf.get("cfg_failed"):
        return []
    decl_t = {}
    for b in jf["blocks"]:
        for e in b["ev"]:
            if e.get("e") == "decl":
                decl_t.setdefault(e["n"], e.get("t", ""))
    params = {p["n"] for p in jf["params"]}
    taken = _addr_taken(jf)
    local_arrays = {n for n, t in decl_t.items() if "[" in t}
    cand = {n for n, t in decl_t.items()
            if n not in frozen_names and n not in params and n not in taken and "[" not in t
            and not t.startswith("struct ") and not t.startswith("union ")}
    if not cand:
        return []
    # definitions
    defs = []          # (var, tree, reads_vars, reads_fields, reads_mem)
    def_at = {}        # (block id, event index) -> def index
    blocks = {b["id"]: b for b in jf["blocks"]}
    for b in jf["blocks"]:
        for i, e in enumerate(b["ev"]):
            t = E = None
            if e.get("e") == "decl" and e["n"] in cand and "init" in e:
                t, E = e["n"], e["init"]
            elif e.get("e") == "asg" and e.get("op") == "=":
                lhs = strip_casts(e.get("lhs"))
                if isinstance(lhs, dict) and lhs.get("k") == "var" and lhs.get("n") in cand and lhs.get("kind") == "local":
                    t, E = lhs["n"], e["rhs"]
            if t is None:
                continue
            Ec = strip_casts(E)
            if isinstance(Ec, dict) and Ec.get("k") == "call" and i > 0 and b["ev"][i - 1].get("e") == "call" \
                    and b["ev"][i - 1].get("id") == Ec.get("id"):
                # t = f(...): t names the result of that execution of the call site until t is
                # assigned again (a re-execution of the site re-executes this definition too)
                def_at[(b["id"], i)] = len(defs)
                defs.append((t, E, set(), set(), False, False))
                continue
            if not _pure(E) or t in vars_in(E):
                continue
            def_at[(b["id"], i)] = len(defs)
            defs.append((t, E, {n["n"] for n in _value_reads(E) if n.get("k") == "var"},      # `&v` does not depend on v's value
                         {n["f"] for n in _value_reads(E) if n.get("k") == "mem"},
                         _reads_pointer_memory(E, local_arrays), _reads_deref(E, local_arrays)))
    if not defs:
        return []

    def step(state, bid, i, e):
        """state: dict var -> def index.  Applies event e."""
        k = e.get("e")
        if k in ("asg", "inc", "decl"):
            wv, wf, through = _event_store(e)
            for t in list(state):
                d = defs[state[t]]
                if t in wv or (wv & d[2]) or (wf & d[3]) or (through and d[4] and (not wf or d[5])):
                    del state[t]
        elif k in ("call", "atomic"):
            ex = _call_exposed_vars(e) if k == "call" else set()
            for t in list(state):
                d = defs[state[t]]
                if d[4] or (ex & d[2]) or t in ex:
                    del state[t]
        di = def_at.get((bid, i))
        if di is not None:
            state[defs[di][0]] = di
        return state

    # forward must-dataflow (intersection)
    preds = {}
    for b in jf["blocks"]:
        for s in b["succ"]:
            if isinstance(s, int):
                preds.setdefault(s, []).append(b["id"])
    IN = {jf["entry"]: {}}
    OUT = {}
    work = [jf["entry"]]
    while work:
        bid = work.pop()
        st = dict(IN[bid])
        for i, e in enumerate(blocks[bid]["ev"]):
            st = step(st, bid, i, e)
        if OUT.get(bid) == st:
            continue
        OUT[bid] = st
        for s in blocks[bid]["succ"]:
            if not isinstance(s, int):
                continue
            if s not in IN:
                new = dict(st)
            else:
                new = {t: d for t, d in IN[s].items() if st.get(t) == d}
                if new == IN[s]:
                    continue
            IN[s] = new
            work.append(s)

    replaced = []

    def subst(tree, state, skip_top_lhs=False):
        """Replace reads of propagated locals inside tree (in place)."""
        if isinstance(tree, dict):
            for kk, v in list(tree.items()):
                if isinstance(v, dict):
                    if v.get("k") == "var" and v.get("kind") == "local" and v.get("n") in state:
                        if tree.get("k") == "un" and tree.get("op") in ("++", "--", "&"):
                            continue
                        if tree.get("k") == "bin" and tree.get("op") in ASSIGN_OPS and kk == "l":
                            continue
                        tree[kk] = copy.deepcopy(defs[state[v["n"]]][1])
                        replaced.append(v["n"])
                    else:
                        subst(v, state)
                elif isinstance(v, list):
                    for j, x in enumerate(v):
                        if isinstance(x, dict) and x.get("k") == "var" and x.get("kind") == "local" and x.get("n") in state:
                            v[j] = copy.deepcopy(defs[state[x["n"]]][1])
                            replaced.append(x["n"])
                        else:
                            subst(x, state)

    def sub_key(e, kk, st):
        holder = {"_": e[kk]}
        subst(holder, st)
        _simplify(holder)
        e[kk] = holder["_"]

    for bid, b in blocks.items():
        if bid not in IN:
            continue
        st = dict(IN[bid])
        for i, e in enumerate(b["ev"]):
            if st:
                k = e.get("e")
                for kk in ("rhs", "x", "init", "a", "b", "i", "fp", "p"):
                    if kk in e and not (k == "inc" and kk == "x"):
                        sub_key(e, kk, st)
                if "lhs" in e and isinstance(e["lhs"], dict):
                    if k == "arith":
                        sub_key(e, "lhs", st)
                    elif strip_casts(e["lhs"]).get("k") != "var":
                        subst(e["lhs"], st)
                        h = {"_": e["lhs"]}
                        _simplify(h)
                        e["lhs"] = h["_"]
            st = step(st, bid, i, e)
        if st and isinstance(b.get("term"), dict) and "cond" in b["term"]:
            sub_key(b["term"], "cond", st)
    return sorted(set(replaced))


# --------------------------------------------------------------------------

def rename_functions(facts, frozen):
    """A function of the reference table that no longer exists, and a function
    of the same file that is not in the table, with the same parameter type
    list, unique on both sides: the function was renamed.  Renamed back (the
    definition, every direct call and every address-of in the units that see
    it)."""
    cur = {}
    for u in facts:
        for jf in u["functions"]:
            cur.setdefault(_fkey(jf), []).append(jf)
    by_file_missing, by_file_new = {}, {}
    for k, loc in frozen.items():
        if k not in cur:
            file, name = k.rsplit(":", 1)
            by_file_missing.setdefault(file, []).append((name, tuple(x[2] for x in loc if x[0] == "param")))
    for k, jfs in cur.items():
        if k not in frozen:
            jf = jfs[0]
            by_file_new.setdefault(jf["file"], []).append((jf["name"], tuple(p["t"] for p in jf["params"])))
    ren = {}
    for file, miss in by_file_missing.items():
        new = by_file_new.get(file, [])
        for name, sig in miss:
            cm = [n for n, s2 in new if s2 == sig]
            cf = [n for n, s2 in miss if s2 == sig]
            if len(cm) == 1 and len(cf) == 1:
                ren[(file, cm[0])] = name
    if not ren:
        return []
    by_new = {}
    for (file, new), old in ren.items():
        by_new.setdefault(new, []).append((file, old))
    for u in facts:
        local = {jf["name"]: jf for jf in u["functions"]}
        names = {}
        for new, lst in by_new.items():
            if len(lst) == 1:
                names[new] = lst[0][1]
        for jf in u["functions"]:
            if (jf["file"], jf["name"]) in ren:
                jf["renamed_from"] = jf["name"]
                jf["name"] = ren[(jf["file"], jf["name"])]
        for jf in u["functions"]:
            for b in jf["blocks"]:
                for n in _walk_any(b):
                    if (n.get("k") == "call" or n.get("e") == "call") and n.get("f") in names:
                        n["f"] = names[n["f"]]
                    elif n.get("k") == "fn" and n.get("n") in names:
                        n["n"] = names[n["n"]]
    return sorted((f, n, o) for (f, n), o in ren.items())


def apply(facts):
    """Run on the raw facts before Function objects are built."""
    from .program import alpha_normalise
    frozen = frozen_locals()
    report = {"renamed": [], "inlined_functions": [], "inlined_locals": [], "renamed_functions": []}
    if not frozen:
        return report
    if not any(jf.get("_normalised") for u in facts for jf in u["functions"]):
        report["renamed_functions"] = rename_functions(facts, frozen)
    seen = set()
    for u in facts:
        for jf in u["functions"]:
            k = (jf["file"], jf["line"], jf["name"])
            if k in seen or jf.get("_normalised"):
                continue
            seen.add(k)
            m = alpha_normalise(jf)
            jf["_renamed"] = m
            if m:
                report["renamed"].append((jf["file"], jf["name"], m))
    report["inlined_functions"] = inline_new_functions(facts, frozen)
    seen = set()
    for u in facts:
        for jf in u["functions"]:
            k = (jf["file"], jf["line"], jf["name"])
            if k in seen:
                continue
            seen.add(k)
            fz = frozen.get(_fkey(jf))
            if fz is None:
                continue
            r = inline_new_locals(jf, {x[1] for x in fz})
            if r:
                report["inlined_locals"].append((jf["file"], jf["name"], r))
            jf["_normalised"] = True
    return report
