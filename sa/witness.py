"""T7: compile-time witnesses.  On-disk constants of the LevelDB formats are
asserted with _Static_assert against the repo's own headers (and, for
file-local enums, the .c file itself).  Only constants are evaluated by the
compiler - no function of the repo runs."""
import os
import re
import subprocess

from .build import AnalysisBroken, REPO, WORK, compdb

# (property, id, includes (repo-relative), C constant expression that must hold, why)
WITNESSES = [
    # --- log format (C15) ---
    ("C15", "log-block-size", ["src/log_format.h"], "LDB_BLOCK_SIZE == 32768", "32 KiB blocks"),
    ("C15", "log-header-size", ["src/log_format.h"], "LDB_HEADER_SIZE == 7", "crc32 + len16 + type8"),
    ("C15", "log-type-zero", ["src/log_format.h"], "LDB_TYPE_ZERO == 0", "record type"),
    ("C15", "log-type-full", ["src/log_format.h"], "LDB_TYPE_FULL == 1", "record type"),
    ("C15", "log-type-first", ["src/log_format.h"], "LDB_TYPE_FIRST == 2", "record type"),
    ("C15", "log-type-middle", ["src/log_format.h"], "LDB_TYPE_MIDDLE == 3", "record type"),
    ("C15", "log-type-last", ["src/log_format.h"], "LDB_TYPE_LAST == 4", "record type"),
    ("C15", "log-max-rectype", ["src/log_format.h"], "LDB_MAX_RECTYPE == 4", "type_crc table size"),
    ("C15", "log-len-fits-16", ["src/log_format.h"], "LDB_BLOCK_SIZE - LDB_HEADER_SIZE <= 0xffff",
     "fragment length is stored in two bytes"),
    ("C15", "crc-mask-delta", ["src/util/crc32c.h"], "ldb_crc32c_mask_delta == 0xa282ead8ul", "masked CRC"),
    # --- table format (C16) ---
    ("C16", "table-magic", ["src/table/format.h"], "LDB_TABLE_MAGIC == 0xdb4775248b80fb57ull", "footer magic"),
    ("C16", "footer-size", ["src/table/format.h"], "LDB_FOOTER_SIZE == 48", "2 handles padded + magic"),
    ("C16", "handle-size", ["src/table/format.h"], "LDB_HANDLE_SIZE == 20", "two varint64"),
    ("C16", "trailer-size", ["src/table/format.h"], "LDB_TRAILER_SIZE == 5", "type + crc32"),
    ("C16", "compression-none", ["src/util/options.h"], "LDB_NO_COMPRESSION == 0", "block type byte"),
    ("C16", "compression-snappy", ["src/util/options.h"], "LDB_SNAPPY_COMPRESSION == 1", "block type byte"),
    ("C16", "filter-base-lg", ["src/table/filter_block.c"], "LDB_FILTER_BASE_LG == 11", "filter every 2 KiB"),
    ("C16", "filter-base", ["src/table/filter_block.c"], "LDB_FILTER_BASE == 2048", "filter every 2 KiB"),
    ("C16", "type-deletion", ["src/dbformat.h"], "LDB_TYPE_DELETION == 0", "value type in key tag"),
    ("C16", "type-value", ["src/dbformat.h"], "LDB_TYPE_VALUE == 1", "value type in key tag"),
    ("C16", "type-seek", ["src/dbformat.h"], "LDB_VALTYPE_SEEK == LDB_TYPE_VALUE",
     "seek key sorts before every entry of the same sequence"),
    ("C16", "max-sequence", ["src/dbformat.h"], "LDB_MAX_SEQUENCE == ((1ull << 56) - 1)", "56-bit sequence"),
    ("C16", "snappy-tag-literal", ["src/util/snappy.c"], "TAG_LITERAL == 0", "snappy element tag"),
    ("C16", "snappy-tag-copy1", ["src/util/snappy.c"], "TAG_COPY1 == 1", "snappy element tag"),
    ("C16", "snappy-tag-copy2", ["src/util/snappy.c"], "TAG_COPY2 == 2", "snappy element tag"),
    ("C16", "snappy-tag-copy4", ["src/util/snappy.c"], "TAG_COPY4 == 3", "snappy element tag"),
    # --- version edit (C17) ---
    ("C17", "tag-comparator", ["src/version_edit.c"], "TAG_COMPARATOR == 1", "MANIFEST tag"),
    ("C17", "tag-log-number", ["src/version_edit.c"], "TAG_LOG_NUMBER == 2", "MANIFEST tag"),
    ("C17", "tag-next-file", ["src/version_edit.c"], "TAG_NEXT_FILE_NUMBER == 3", "MANIFEST tag"),
    ("C17", "tag-last-sequence", ["src/version_edit.c"], "TAG_LAST_SEQUENCE == 4", "MANIFEST tag"),
    ("C17", "tag-compact-pointer", ["src/version_edit.c"], "TAG_COMPACT_POINTER == 5", "MANIFEST tag"),
    ("C17", "tag-deleted-file", ["src/version_edit.c"], "TAG_DELETED_FILE == 6", "MANIFEST tag"),
    ("C17", "tag-new-file", ["src/version_edit.c"], "TAG_NEW_FILE == 7", "MANIFEST tag"),
    ("C17", "tag-prev-log", ["src/version_edit.c"], "TAG_PREV_LOG_NUMBER == 9", "MANIFEST tag"),
    ("C17", "num-levels", ["src/dbformat.h"], "LDB_NUM_LEVELS == 7", "levels encoded in edits"),
    # --- write batch (C04/C18 share) ---
    ("C04", "batch-header", ["src/write_batch.c"], "LDB_HEADER == 12", "8-byte sequence + 4-byte count"),
]


def _flags():
    units = compdb()
    fl = []
    for a in units[0]["flags"]:
        if a.startswith("-std=") or a.startswith("-W") or a == "-pedantic":
            continue
        fl.append(a)
    return fl + ["-std=c11", "-w", "-I" + os.path.join(REPO, "src"), "-I" + os.path.join(REPO, "include")]


def run(ctx, prop, rule="T7-constant"):
    """Evaluates every witness of `prop`; records obligations on ctx."""
    ws = [w for w in WITNESSES if w[0] == prop]
    groups = {}
    for w in ws:
        groups.setdefault(tuple(w[2]), []).append(w)
    import tempfile
    os.makedirs(os.path.join(WORK, "witness"), exist_ok=True)
    wdir = tempfile.mkdtemp(prefix="w", dir=os.path.join(WORK, "witness"))
    flags = _flags()
    n = 0
    for gi, (incs, items) in enumerate(sorted(groups.items())):
        path = os.path.join(wdir, "%s_%d.c" % (prop, gi))
        with open(path, "w") as f:
            for inc in incs:
                f.write('#include "%s"\n' % os.path.join(REPO, inc))
            for w in items:
                f.write('_Static_assert(%s, "W:%s");\n' % (w[3], w[1]))
        r = subprocess.run(["clang", "-fsyntax-only", "-ferror-limit=0"] + flags + [path],
                           capture_output=True, text=True, cwd=os.path.join(REPO, "src"))
        failed = set()
        other = []
        for line in r.stderr.splitlines():
            if "error:" not in line:
                continue
            m = re.search(r'static_assert failed.*"W:([^"]+)"', line)
            if m:
                failed.add(m.group(1))
            else:
                other.append(line.strip())
        if other:
            raise AnalysisBroken("witness %s does not compile (constant or file vanished?): %s"
                                 % ("+".join(incs), other[0]))
        if r.returncode != 0 and not failed:
            raise AnalysisBroken("witness compiler failed: " + r.stderr[-500:])
        for w in items:
            n += 1
            site = "+".join(incs)
            if w[1] in failed:
                ctx.bad(rule, w[1], "<constant>", site,
                        "compile-time witness failed: %s  (%s)" % (w[3], w[4]), subject=w[1])
            else:
                ctx.ok(rule, w[1], site, "_Static_assert(%s) holds (%s)" % (w[3], w[4]))
    import shutil
    shutil.rmtree(wdir, ignore_errors=True)
    return n
