"""C15 Write-ahead-log framing is exact, standard and torn-tail tolerant.

Decided: the on-disk constants (compile-time witnesses), byte-level header
layout and CRC coverage of writer and reader against the standard format,
mask/unmask inverse rotations, block-switch and fragment-type selection,
torn-tail = EOF, reassembly returns.  Not decided: byte-for-byte equality
with a reference encoder for all inputs; resynchronisation behaviour.
"""
from .. import witness
from . import wal

EXPLANATION = ("Static decision of the framing clauses of C15: compile-time witnesses for the format constants, "
               "writer/reader agreement on header offsets and CRC coverage, guard dominance for block switching, "
               "fragment typing, torn-tail handling and logical-record reassembly, on every CFG path.")
RULE = "obligation = one constant / layout row / guard instance; non-trivial = compared a pair or walked a path"
MIN_OBLIGATIONS = 45


def check(ctx):
    from . import c02 as _c02
    _c02.check_env_read(ctx)      # a log block is short only at the end of the file
    witness.run(ctx, "C15")
    wal.check_header_agreement(ctx)
    wal.check_block_tail(ctx)
    wal.check_emit(ctx)
    wal.check_torn_tail(ctx)
    wal.check_reassembly(ctx)
    wal.check_silent_skip(ctx)
    from . import c11
    c11.check_log_checksums(ctx)    # a record is delivered only after its CRC matched
