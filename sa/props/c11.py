"""C11 Corrupted files are detected, never turned into wrong answers.

Decided: with verification on, block bytes are interpreted only after the
CRC matched, a mismatch is LDB_CORRUPTION, the CRC covers contents + type;
verification is switched on from paranoid_checks where the property says so
(table open, meta/filter blocks, compaction inputs) and log/MANIFEST readers
verify record checksums; statuses of table and block iterators are read
before the iterators are destroyed and aggregated by the composite
iterators; a failed or corrupt table read ends a lookup as an error, never
as not-found; a damaged log fragment never completes a logical record.
Not decided: that a flipped bit changes the CRC; that every live key is
reached.
"""
from ..program import const_val
from ..rules import find_calls, one_call, site
from . import tablefmt, wal, c12

EXPLANATION = ("Guard-dominance and path automata over the block reader, table open path, composite iterators, "
               "lookup callbacks and the log reader: checksum-before-use, verification switched on, statuses consumed.")
RULE = "obligation = one guard / status-consumption / switch-on instance; non-trivial = matched a site and walked a path"
MIN_OBLIGATIONS = 60


def check_log_checksums(ctx):
    for fn_name, file in (("ldb_recover_log_file", "src/db_impl.c"), ("ldb_versions_recover", "src/version_set.c")):
        f = ctx.fn(fn_name, file)
        for b, i, e in one_call(ctx, f, "ldb_reader_init"):
            ctx.check(const_val(e["a"][3]) not in (None, 0), "T2-verify-on", "log-reader:" + fn_name, f.name, site(f, e),
                      "record checksums are verified", "%s reads its log without checksum verification" % fn_name)
    r = ctx.fn("read_physical_record", "src/log_reader.c")
    from ..rules import must_cross_edge_before, truth_of, rel_edge, is_call, argkey
    from ..program import key
    must_cross_edge_before(ctx, "T2-log-checksum", "record-after-crc", r,
                           lambda c, p: truth_of(c, p, "lr->checksum") is False or rel_edge(c, p, "==", "actual", "expect"),
                           lambda e: is_call(e, "ldb_slice_set") and argkey(e, 0) == "result",
                           "with checksumming on, a physical record is delivered only after its CRC matched")


def check(ctx):
    c12.check_status_not_overwritten(ctx)   # a read error is not replaced by the status of a later, healthy child
    from . import tablefmt as _tf2
    _tf2.check_twoiter_status(ctx)   # an error met while skipping blocks stays visible
    from . import c02 as _c02
    _c02.check_env_read(ctx)      # a read error is not mistaken for the end of the data
    tablefmt.check_read_block(ctx)
    tablefmt.check_verification_switched_on(ctx)
    tablefmt.check_iterator_statuses(ctx)
    c12.check_read_errors(ctx)
    check_log_checksums(ctx)
    wal.check_reassembly(ctx)
    wal.check_silent_skip(ctx)
    wal.check_torn_tail(ctx)
