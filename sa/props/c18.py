"""C18 Decoders are total and memory-safe on arbitrary bytes.

Decided (structural part only): a table of guard obligations - each
dangerous operation of a decoder (a read through the cursor, an index
computed from file bytes, a copy of a decoded length, a shift by a decoded
amount, a division) is dominated on every path by the bounds predicate that
makes it safe; cursor advance and remaining-length decrease are paired;
every parse result is consumed (shared with C12); decoder loops consume
input on every round; abort() is never reachable on input (shared with C12).
Not decided: absence of out-of-bounds accesses in general (needs relational
invariants between pointers and lengths across calls), termination of the
binary searches, whole-database operations on hostile directories.
"""
from ..paths import xgraph
from ..program import const_val, key, strip_casts, walk, fields_in
from ..rules import (is_incr, argkey, find_calls, fmt_atoms, holds, holds_any, is_call, site, CALL)
from .. import status
from . import c12, tablefmt, wal, c17, c05

EXPLANATION = ("Table-driven guard dominance over ~40 decoder functions: every listed dangerous operation must be "
               "dominated, on every feasible CFG path, by its bounds guard (matched semantically, by implication); plus "
               "cursor pairing, shift/divisor bounds, loop progress and parse-result consumption.")
RULE = ("obligation = one dangerous operation site against one guard row, one cursor pair, one arithmetic site, one "
        "loop; non-trivial = the site exists and its dominating facts were computed")
MIN_OBLIGATIONS = 120

COD = "src/util/coding.h"
BLK = "src/table/block.c"
SNP = "src/util/snappy.c"


def DEREF(k):
    return lambda e: e["e"] == "deref" and key(e["x"]) == k and e["mode"] in ("r", "rw")


def IDX(base, idx=None):
    return lambda e: e["e"] == "idx" and key(e["b"]) == base and (idx is None or key(e["i"]) == idx) and e["mode"] in ("r", "rw")


def CALLTO(name, **args):
    def p(e):
        if not is_call(e, name):
            return False
        for k, v in args.items():
            if argkey(e, int(k[1:])) != v:
                return False
        return True
    return p


def ASG(lhs):
    return lambda e: e["e"] == "asg" and key(e["lhs"]) == lhs and const_val(e["rhs"]) is None


def DECL(n):
    return lambda e: e["e"] == "decl" and e["n"] == n and "init" in e


# (function, file, selector, min sites, alternatives-of-conjunctions, what)
ROWS = [
    # --- fixed / varint / raw primitives ---
    ("ldb_varint32_read", COD, DEREF("(*xp)"), 2, [[(">", "(*xn)", 0)]], "byte read through the cursor"),
    ("ldb_varint64_read", COD, DEREF("(*xp)"), 1, [[(">", "(*xn)", 0)]], "byte read through the cursor"),
    ("ldb_raw_read", COD, CALLTO("memcpy"), 1, [[(">=", "(*xn)", "zn")]], "copy of zn bytes from the cursor"),
    ("ldb_zraw_read", COD, ASG("(*zp)"), 1, [[(">=", "(*xn)", "zn")]], "aliasing zn bytes at the cursor"),
    ("ldb_fixed32_read", COD, CALLTO("ldb_fixed32_decode"), 1, [[(">=", "(*xn)", 4)]], "4-byte read"),
    ("ldb_fixed64_read", COD, CALLTO("ldb_fixed64_decode"), 1, [[(">=", "(*xn)", 8)]], "8-byte read"),
    # --- keys ---
    ("ldb_pkey_import", "src/dbformat.c", CALLTO("ldb_fixed64_decode"), 1, [[(">=", "xn", 8)]], "tag read at xn - 8"),
    ("ldb_pkey_import", "src/dbformat.c", ASG("z->type"), 1, [[("<=", "type", 1)]], "value type stored"),
    # --- footer / handles / table open (also C16) ---
    ("ldb_footer_read", "src/table/format.c", CALLTO("ldb_fixed64_decode"), 1, [[(">=", "(*xn)", 48)]], "magic read at +40"),
    ("ldb_table_open", "src/table/table.c", CALLTO("ldb_rfile_pread"), 1, [[(">=", "size", 48)]], "footer offset size - 48"),
    # --- blocks ---
    ("ldb_block_init", BLK, ASG("block->restart_offset"), 1,
     [[(">=", "block->size", 4), ("<=", CALL("ldb_block_restarts"), "max_restarts_allowed")]], "restart array offset"),
    ("ldb_block_init", BLK, CALLTO("ldb_block_restarts"), 1, [[(">=", "block->size", 4)]], "restart count read at size - 4"),
    ("ldb_blockiter_create", BLK, CALLTO("ldb_block_restarts"), 1, [[(">=", "block->size", 4)]], "restart count read at size - 4"),
    ("ldb_blockiter_create", BLK, CALLTO("ldb_blockiter_init"), 1, [[("!=", "num_restarts", "0"), (">=", "block->size", 4)]],
     "iterator over a non-empty restart array"),
    ("decode_entry", BLK, IDX("xp"), 3, [[(">=", "limit", "xp"), (">=", "xn", 3)]], "three header bytes"),
    ("decode_entry", BLK, lambda e: e["e"] == "ret" and key(e.get("x")) == "xp", 1,
     [[(">=", "xn", "((*non_shared) + (*value_length))")]], "entry (key delta + value) lies before the limit"),
    ("get_restart_point", BLK, lambda e: e["e"] == "ret" and key(e.get("x")) == "offset", 1, [[]], "restart offset returned"),
    ("parse_next_key", BLK, CALLTO("ldb_buffer_resize"), 1,
     [[("!=", "p", "0"), (">=", "iter->key.size", "shared")]],
     "shared prefix taken from the previous key"),
    ("parse_next_key", BLK, CALLTO("decode_entry"), 1, [[("<", "p", "limit")]], "entry decoded inside the data area"),
    ("ldb_blockiter_seek", BLK, CALLTO("do_compare"), 2,
     [[("!=", "key_ptr", "0"), ("==", "shared", "0")], [("!=", CALL("ldb_blockiter_valid"), "0")], [("!=", CALL("parse_next_key"), "0")]],
     "restart key compared only if decoded (unshared)"),
    ("ldb_blockiter_prev", BLK, lambda e: is_incr(e, "iter->restart_index", -1), 1,
     [[("!=", "iter->restart_index", "0")]], "restart index decrement"),
    # --- filter ---
    ("ldb_filter_init", "src/table/filter_block.c", IDX("contents->data"), 1, [[(">=", "n", 5)]], "base_lg byte at n - 1"),
    ("ldb_filter_init", "src/table/filter_block.c", CALLTO("ldb_fixed32_decode"), 1, [[(">=", "n", 5)]], "offset-array start at n - 5"),
    ("ldb_filter_init", "src/table/filter_block.c", ASG("fr->offset"), 1, [[("<=", "last_word", "(n - 5)"), (">=", "n", 5)]],
     "offset array inside the block"),
    ("ldb_filter_matches", "src/table/filter_block.c", CALLTO("ldb_fixed32_decode"), 2, [[("<", "index", "fr->num")]], "offset entries index, index + 1"),
    ("ldb_filter_matches", "src/table/filter_block.c", CALLTO("ldb_slice_set"), 1,
     [[("<=", "start", "limit"), ("<=", "limit", "(fr->offset - fr->data)")]], "filter slice inside the filter data"),
    ("bloom_match", "src/util/bloom.c", IDX("data", "(len - 1)"), 1, [[(">=", "len", 2)]], "k byte at len - 1"),
    ("bloom_match", "src/util/bloom.c", IDX("data", "(pos / 8)"), 1, [[(">=", "len", 2), ("<=", "k", 30)]], "probe inside the bit array"),
    # --- level iterator value ---
    ("get_file_iterator", "src/version_set.c", CALLTO("ldb_fixed64_decode"), 2, [[("==", "file_value->size", 16)]], "number/size at +0/+8"),
    # --- write batch ---
    ("ldb_batch_iterate", "src/write_batch.c", CALLTO("ldb_slice_eat", a1="12"), 1, [[(">=", "input.size", 12)]], "header skipped"),
    ("ldb_batch_iterate", "src/write_batch.c", IDX("input.data", "0"), 1, [[(">", "input.size", 0)], [("!=", "input.size", "0")]], "tag byte"),
    ("ldb_batch_iterate", "src/write_batch.c", CALLTO("ldb_slice_eat", a1="1"), 1, [[(">", "input.size", 0)], [("!=", "input.size", "0")]], "tag byte consumed"),
    ("ldb_recover_log_file", "src/db_impl.c", CALLTO("ldb_batch_set_contents"), 1, [[(">=", "record.size", 12)]], "batch header present"),
    ("convert_log_to_table", "src/repair.c", CALLTO("ldb_batch_set_contents"), 1, [[(">=", "record.size", 12)]], "batch header present"),
    # --- version edit ---
    ("ldb_level_slurp", "src/version_edit.c", ASG("(*level)"), 1, [[("<", "val", 7)]], "level index"),
    # --- log reader ---
    ("read_physical_record", "src/log_reader.c", IDX("header"), 3, [[(">=", "lr->buffer.size", 7)]], "header bytes 4..6"),
    ("read_physical_record", "src/log_reader.c", CALLTO("ldb_slice_eat"), 1,
     [[("<=", "(7 + length)", "lr->buffer.size"), (">=", "lr->buffer.size", 7)]], "record consumed from the buffer"),
    # --- mapped reads ---
    ("ldb_rfile_pread0", "src/util/env_unix_impl.h", lambda e: is_call(e, "ldb_slice_set") and "file->base" in (argkey(e, 1) or ""), 1,
     [[(">=", "(offset + count)", "count"), ("<=", "(offset + count)", "file->length")]],
     "mapped read [offset, offset + count) inside the mapping, sum not wrapped"),
    # --- CURRENT ---
    ("read_current_filename", "src/version_set.c", IDX("name"), 1, [[("!=", "data.size", "0")], [("!=", "len", "0")]], "last byte of CURRENT"),
    # --- file names / numbers ---
    ("ldb_decode_int", "src/util/strutil.c", lambda e: e["e"] == "asg" and key(e["lhs"]) == "x" and e["op"] == "*=", 1, [[]],
     "x * 10 (overflow guard checked by the edge rule below)"),
    # --- snappy ---
    ("decode_blocks", SNP, IDX("xp", "0"), 8, [[(">", "xn", 0)], [(">=", "xn", 1)], [("!=", "xn", "0")]], "tag / first byte"),
    ("decode_blocks", SNP, IDX("xp", "1"), 5, [[(">=", "xn", 2)]], "second byte"),
    ("decode_blocks", SNP, IDX("xp", "2"), 3, [[(">=", "xn", 3)]], "third byte"),
    ("decode_blocks", SNP, IDX("xp", "3"), 2, [[(">=", "xn", 4)]], "fourth byte"),
    ("decode_blocks", SNP, IDX("xp", "4"), 1, [[(">=", "xn", 5)]], "fifth byte"),
    ("decode_blocks", SNP, CALLTO("memcpy", a1="xp", a2="len"), 1, [[("<=", "len", "zn"), ("<=", "len", "xn"), ("<", "x", 0x7fffffff)]], "literal copy"),
    ("decode_blocks", SNP, CALLTO("memcpy", a1="(zp - off)"), 1,
     [[("!=", "off", "0"), (">=", "(zp - sp)", "off"), ("<=", "len", "zn"), (">=", "off", "len")]], "back-reference copy"),
    ("decode_blocks", SNP, IDX("(zp - off)", "i"), 1, [[("!=", "off", "0"), (">=", "(zp - sp)", "off"), ("<=", "len", "zn"), ("<", "i", "len")]],
     "overlapping back-reference copy"),
]


def check_rows(ctx):
    P = ctx.P
    for fn_name, file, sel, minsites, alts, what in ROWS:
        f = ctx.fn(fn_name, file)
        g = xgraph(P, f)
        sites = [(b, i, e) for (b, i, e) in f.events() if sel(e)]
        ctx.require(len(sites) >= minsites, "%s: expected >= %d sites of `%s`, found %d" % (fn_name, minsites, what, len(sites)))
        for b, i, e in sites:
            atoms = g.must_at(b, i)
            ok = holds_any(atoms, alts)
            ctx.check(ok, "T2-decoder-guard", "%s:%s@%s" % (fn_name, what.split()[0], ":".join(e["l"].split(":")[1:])), f.name, site(f, e),
                      "%s is dominated by its bounds guard" % what,
                      "%s is reachable without its bounds guard %s; facts on every path: %s" % (what, alts, fmt_atoms(atoms)),
                      subject="%s:%s" % (fn_name, what))


def check_snappy_copies(ctx):
    """Every copy in the snappy decoder is bounded by what is left of the
    output (zn) and, when it reads the input, of the input (xn) - whatever
    its length expression is (a constant-size fast path included)."""
    f = ctx.fn("decode_blocks", SNP)
    g = xgraph(ctx.P, f)
    sites = [(b, i, e) for (b, i, e) in f.events("call") if is_call(e, ("memcpy", "memmove", "memset"))]
    ctx.require(len(sites) >= 2, "decode_blocks: copy sites not found")
    for b, i, e in sites:
        n = argkey(e, 2)
        atoms = g.must_at(b, i)
        dst, src = argkey(e, 0) or "", argkey(e, 1) or ""
        need = []
        if "zp" in dst:
            need.append(("<=", n, "zn"))
        if "xp" in src:
            need.append(("<=", n, "xn"))
        ok = bool(need) and all(_le(atoms, x) for x in need)
        ctx.check(ok, "T2-decoder-guard", "decode_blocks:copy@%s" % ":".join(e["l"].split(":")[1:]), f.name, site(f, e),
                  "a copy of %s bytes stays inside the remaining output / input" % n,
                  "a copy of %s bytes (%s <- %s) is not bounded by the remaining %s; facts: %s" %
                  (n, dst, src, " / ".join(x[2] for x in need) or "buffer", fmt_atoms(atoms)),
                  subject="decode_blocks:copy:%s" % n)


def _le(atoms, want):
    """n <= cap, also when n is a constant (cap >= n)."""
    op, n, cap = want
    if holds(atoms, want):
        return True
    try:
        c = int(n)
    except (TypeError, ValueError):
        return False
    return holds(atoms, (">=", cap, c))


def check_restart_clamp(ctx):
    f = ctx.fn("get_restart_point", BLK)
    g = xgraph(ctx.P, f)
    cl = [(b, i, e) for (b, i, e) in f.events("asg") if key(e["lhs"]) == "offset" and key(e["rhs"]) == "iter->restarts"]
    ctx.check(len(cl) == 1 and holds(g.must_at(cl[0][0], cl[0][1]), (">", "offset", "iter->restarts")) if cl else False,
              "T2-decoder-guard", "get_restart_point:clamp", f.name, f.loc,
              "a restart offset from disk is clamped to the restart array start", "restart offset clamp changed")


def check_wide_sum(ctx):
    """decode_entry: non_shared + value_length are two 32-bit values from disk;
    their sum must be formed in 64 bits or it wraps and passes the bound."""
    f = ctx.fn("decode_entry", BLK)
    found = None
    for blk in f.blocks.values():
        c = strip_casts(blk.term.get("cond")) if blk.term is not None and "cond" in blk.term else None
        if isinstance(c, dict) and c.get("k") == "bin" and c["op"] in ("<", ">=", ">", "<="):
            for side in (c["l"], c["r"]):
                s2 = side
                while isinstance(s2, dict) and s2.get("k") == "cast" and s2.get("x", {}).get("k") != "un":
                    s2 = s2["x"]
                if isinstance(s2, dict) and s2.get("k") == "bin" and s2["op"] == "+" and "non_shared" in key(s2) and "value_length" in key(s2):
                    found = s2
    ctx.require(found is not None, "decode_entry: length bound comparison not found")
    wide = ("uint64_t", "size_t", "unsigned long", "unsigned long long")
    ok = any(isinstance(x, dict) and x.get("k") == "cast" and x.get("t") in wide for x in (found["l"], found["r"]))
    ctx.check(ok, "T2-decoder-guard", "decode_entry:sum-in-64-bits", f.name, f.loc,
              "non_shared + value_length is added in 64 bits", "the two 32-bit lengths are added in 32 bits: the sum can wrap past the bound")


def check_internal_key_gate(ctx):
    """Every internal key that enters from a block passed a >= 8 byte gate (the
    comparator reads the tag at size - 8)."""
    from ..rules import must_cross_edge_before, rel_edge, truth_of
    f = ctx.fn("parse_next_key", BLK)
    must_cross_edge_before(ctx, "T2-decoder-guard", "parse_next_key:internal-key-8", f,
                           lambda c, p: truth_of(c, p, "is_internal") is False or rel_edge(c, p, ">=", "(shared + non_shared)", 8),
                           lambda e: is_call(e, "ldb_buffer_append") and argkey(e, 0) == "&iter->key",
                           "a key is assembled only if the iterator is not internal or the key has its 8-byte tag")
    s = ctx.fn("ldb_blockiter_seek", BLK)
    must_cross_edge_before(ctx, "T2-decoder-guard", "blockiter_seek:target-8", s,
                           lambda c, p: truth_of(c, p, "is_internal") is False or rel_edge(c, p, ">=", "target->size", 8),
                           lambda e: is_call(e, "do_compare"),
                           "the seek target is compared only if it has its 8-byte tag (internal iterators)")
    must_cross_edge_before(ctx, "T2-decoder-guard", "blockiter_seek:restart-key-8", s,
                           lambda c, p: truth_of(c, p, "is_internal") is False or rel_edge(c, p, ">=", "non_shared", 8),
                           lambda e: is_call(e, "do_compare") and argkey(e, 1) == "&mid_key",
                           "a restart key is compared only if it has its 8-byte tag (internal iterators)")


def check_decode_int(ctx):
    """x*10 + d cannot overflow: the multiplication is reachable only across
    an edge establishing x <= limit and not (x == limit and ch > last)."""
    from ..rules import must_cross_edge_before, rel_edge
    f = ctx.fn("ldb_decode_int", "src/util/strutil.c")
    must_cross_edge_before(ctx, "T2-decoder-guard", "decode_int:overflow", f,
                           lambda c, p: rel_edge(c, p, "<=", "x", "limit"),
                           lambda e: e["e"] == "asg" and key(e["lhs"]) == "x" and e["op"] == "*=",
                           "the decimal accumulator is multiplied only when x <= UINT64_MAX / 10",
                           reset=lambda e: e["e"] == "asg" and key(e["lhs"]) == "x")
    d = {e["n"]: e for b, i, e in f.events("decl")}
    ctx.check(const_val(d["limit"].get("init")) == (2 ** 64 - 1) // 10 and const_val(d["last"].get("init")) == ord("0") + (2 ** 64 - 1) % 10,
              "T2-decoder-guard", "decode_int:constants", f.name, f.loc, "limit = UINT64_MAX/10, last = '0' + UINT64_MAX%10",
              "overflow constants changed")
    g = xgraph(ctx.P, f)
    for b, i, e in f.events("ret"):
        if const_val(e.get("x")) == 1:
            ctx.check(holds(g.must_at(b, i), ("!=", "sp", "(*xp)")), "T2-decoder-guard", "decode_int:non-empty", f.name, site(f, e),
                      "success requires at least one digit", "empty digit string accepted")


def check_cursor_pairs(ctx):
    """ptr += k is paired with len -= k in the same block (cursor discipline)."""
    P = ctx.P
    pairs = [("ldb_varint32_read", COD, "(*xp)", "(*xn)"), ("ldb_varint64_read", COD, "(*xp)", "(*xn)"),
             ("ldb_raw_read", COD, "(*xp)", "(*xn)"), ("ldb_zraw_read", COD, "(*xp)", "(*xn)"),
             ("ldb_fixed32_read", COD, "(*xp)", "(*xn)"), ("ldb_fixed64_read", COD, "(*xp)", "(*xn)"),
             ("ldb_slice_eat", "src/util/slice.h", "z->data", "z->size"), ("decode_blocks", SNP, "xp", "xn"),
             ("decode_blocks", SNP, "zp", "zn")]
    for fn_name, file, pk, nk in pairs:
        f = ctx.fn(fn_name, file)
        n = 0
        ok = True
        detail = ""
        for blk in f.blocks.values():
            adv = sorted(key(e["rhs"]) for e in blk.ev if e["e"] == "asg" and e["op"] == "+=" and key(e["lhs"]) == pk)
            dec = sorted(key(e["rhs"]) for e in blk.ev if e["e"] == "asg" and e["op"] == "-=" and key(e["lhs"]) == nk)
            n += len(adv)
            if adv != dec:
                ok = False
                detail = "%s += %s but %s -= %s" % (pk, adv, nk, dec)
        ctx.require(n >= 1, "%s: cursor advance of %s not found" % (fn_name, pk))
        ctx.check(ok, "T6-cursor-pairing", "%s:%s" % (fn_name, pk), f.name, f.loc,
                  "every advance of %s is paired with the same decrease of %s (%d sites)" % (pk, nk, n),
                  "cursor and remaining length diverge: %s" % detail)


def check_arith(ctx):
    P = ctx.P
    rows = [("ldb_varint32_read", COD, "shift", 31), ("ldb_varint64_read", COD, "shift", 63)]
    for fn_name, file, var, mx in rows:
        f = ctx.fn(fn_name, file)
        g = xgraph(P, f)
        sites = [(b, i, e) for (b, i, e) in f.events("arith") if e["op"] == "<<" and key(e["rhs"]) == var]
        ctx.require(len(sites) == 2, "%s: shift sites not found" % fn_name)
        for b, i, e in sites:
            ctx.check(holds(g.must_at(b, i), ("<=", var, mx)), "T2-shift-bound", "%s@%s" % (fn_name, e["l"].split(":")[1]), f.name,
                      site(f, e), "shift amount is below the operand width", "shift by an unbounded amount")
    # any other shift by a non-constant in the library must be bounded by construction
    known = {("bloom_add", "(pos % 8)"), ("bloom_match", "(pos % 8)"), ("ldb_hash", "r"), ("ldb_rand_skewed", "shift"),
             ("hash32", "shift"), ("ldb_filter_matches", "fr->base_lg"), ("ldb_varint32_read", "shift"), ("ldb_varint64_read", "shift")}
    for f in P.all_functions:
        for b, i, e in f.events("arith"):
            if e["op"] in ("<<", ">>", "<<=", ">>=") and const_val(e["rhs"]) is None:
                k = (f.name, key(e["rhs"]))
                ctx.check(k in known, "T2-shift-bound", "site:%s:%s" % k, f.name, site(f, e), "known bounded shift site",
                          "new shift by a non-constant amount `%s` in %s: show its bound" % (key(e["rhs"]), f.name), subject="%s:%s" % k)
    # base_lg is masked wherever it is stored
    from ..rules import stores_of_field_in_program
    sts = stores_of_field_in_program(P, "ldb_filter_s", "base_lg")
    ctx.require(len(sts) >= 2, "stores to filter base_lg not found")
    for f, b, i, e in sts:
        r = strip_casts(e["rhs"])
        ok = const_val(r) == 0 or (isinstance(r, dict) and r.get("k") == "bin" and r["op"] == "&" and (const_val(r["r"]) or 64) <= 63)
        ctx.check(ok, "T2-shift-bound", "base_lg-masked@%s" % e["l"].split(":")[1], f.name, site(f, e),
                  "base_lg from disk is masked to < 64 before it is used as a shift amount", "base_lg stored unmasked: %s" % key(e["rhs"]))
    h = ctx.fn("ldb_hash", "src/util/hash.c")
    rd = [e for b, i, e in h.events("decl") if e["n"] == "r"]
    ctx.check(bool(rd) and const_val(rd[0].get("init")) is not None and const_val(rd[0]["init"]) < 32, "T2-shift-bound", "ldb_hash:r", h.name, h.loc,
              "hash rotation constant < 32", "hash shift constant changed")
    # divisors
    bm = ctx.fn("bloom_match", "src/util/bloom.c")
    g = xgraph(P, bm)
    bits = [e for b, i, e in bm.events("asg") if key(e["lhs"]) == "bits"]
    ctx.check(len(bits) == 1 and key(bits[0]["rhs"]) == "((len - 1) * 8)", "T2-divisor-nonzero", "bloom_match:bits", bm.name, bm.loc,
              "bits = (len - 1) * 8", "bits computed as %s" % [key(x["rhs"]) for x in bits])
    for b, i, e in bm.events("arith"):
        if e["op"] == "%" and key(e["rhs"]) == "bits":
            ctx.check(holds(g.must_at(b, i), (">=", "len", 2)), "T2-divisor-nonzero", "bloom_match:%", bm.name, site(bm, e),
                      "hash % bits with bits >= 8", "modulo by a possibly zero bit count")
    known_div = {("bloom_add", "bits"), ("bloom_match", "bits"), ("ldb_thread_stack_size", "page_size"), ("ldb_rand_uniform", "n"),
                 ("ldb_versions_finalize", "max_bytes_for_level(vset->options, level)")}
    for f in P.all_functions:
        for b, i, e in f.events("arith"):
            if e["op"] in ("/", "%", "/=", "%=") and const_val(e["rhs"]) is None and "double" not in (e.get("lt") or "") \
                    and "<float>" not in key(e["rhs"]):
                k = (f.name, key(e["rhs"]))
                ctx.check(k in known_div, "T2-divisor-nonzero", "site:%s:%s" % k, f.name, site(f, e), "known non-zero divisor site",
                          "new division by a non-constant `%s` in %s: show it is non-zero" % (key(e["rhs"]), f.name), subject="%s:%s" % k)


def check_progress(ctx):
    """Every round of a decoding loop consumes input: no cycle through the
    loop condition avoids all consuming events."""
    loops = [
        ("ldb_batch_iterate", "src/write_batch.c", "input.size", ("ldb_slice_eat", "ldb_slice_slurp", "ldb_buffer_slurp")),
        ("ldb_edit_import", "src/version_edit.c", "input.size", ("ldb_varint32_slurp", "ldb_slice_slurp")),
    ]
    for fn_name, file, condkey, consumers in loops:
        f = ctx.fn(fn_name, file)
        heads = [b.id for b in f.blocks.values() if b.term is not None and "cond" in b.term and condkey in key(b.term["cond"])
                 and b.term["k"] in ("WhileStmt", "ForStmt")]
        ctx.require(len(heads) == 1, "%s: decoding loop not found" % fn_name)
        h = heads[0]
        consuming = {b.id for b in f.blocks.values() if any(is_call(e, consumers) for e in b.ev)}
        # reach from head back to head avoiding consuming blocks?
        seen = set()
        st = [s for s in f.blocks[h].succ if s is not None]
        stuck = False
        while st:
            b = st.pop()
            if b in seen or b in consuming:
                continue
            seen.add(b)
            if b == h:
                stuck = True
                break
            st.extend(s for s in f.blocks[b].succ if s is not None)
        ctx.check(not stuck, "T1-decoder-progress", fn_name, f.name, f.loc, "every loop round consumes input",
                  "a loop round can return to the loop head without consuming input")
    # scans over entries that may be damaged: every round of the loop moves the child iterator
    for fn_name, file, move in (("find_next_user_entry", "src/db_iter.c", "next"), ("find_prev_user_entry", "src/db_iter.c", "prev")):
        f = ctx.fn(fn_name, file)
        def moves(e, move=move):
            if e.get("e") != "call":
                return False
            if is_call(e, "ldb_iter_" + move):
                return True
            return e.get("fp") is not None and key(e["fp"]).endswith("->" + move)
        consuming = {b.id for b in f.blocks.values() if any(moves(e) for e in b.ev)}
        ctx.require(len(consuming) >= 1, "%s: the step of the child iterator not found" % fn_name)
        def cyclic(skip):
            color = {}
            def visit(b0):
                st = [(b0, iter([s for s in f.blocks[b0].succ if s is not None and s not in skip]))]
                color[b0] = 1
                while st:
                    b, it = st[-1]
                    for s in it:
                        if color.get(s) == 1:
                            return True
                        if s not in color:
                            color[s] = 1
                            st.append((s, iter([x for x in f.blocks[s].succ if x is not None and x not in skip])))
                            break
                    else:
                        color[b] = 2
                        st.pop()
                return False
            return any(visit(b) for b in list(f.blocks) if b not in color and b not in skip)
        ctx.require(cyclic(set()), "%s: scan loop not found" % fn_name)
        ctx.check(not cyclic(consuming), "T1-decoder-progress", fn_name, f.name, f.loc,
                  "every round of the scan steps the child iterator (an entry that does not parse is skipped, not retried)",
                  "a round of the scan can return to the loop condition without moving the child iterator: on such an entry the scan never ends")
    db = ctx.fn("decode_blocks", SNP)
    heads = [b.id for b in db.blocks.values() if b.term is not None and "cond" in b.term and key(b.term["cond"]) == "(xn > 0)"]
    ctx.require(len(heads) == 1, "decode_blocks: loop head not found")
    h = heads[0]
    consuming = {b.id for b in db.blocks.values() if any(e["e"] == "asg" and key(e["lhs"]) == "xn" and e["op"] == "-=" for e in b.ev)}
    # `switch (xp[0] & 3)` with cases 0..3: the "no case" edge of the CFG is infeasible
    dead_edges = set()
    for blk in db.blocks.values():
        if blk.term is not None and blk.term["k"] == "SwitchStmt":
            c = strip_casts(blk.term.get("cond"))
            if isinstance(c, dict) and c.get("k") == "bin" and c["op"] == "&" and const_val(c["r"]) is not None:
                m = const_val(c["r"])
                vals = {const_val((db.blocks[s].label or {}).get("case")) for s in blk.succ if s is not None and "case" in (db.blocks[s].label or {})}
                if vals >= set(range(0, m + 1)):
                    for s in blk.succ:
                        if s is not None and "case" not in (db.blocks[s].label or {}):
                            dead_edges.add((blk.id, s))
    ctx.check(bool(dead_edges), "T6-snappy-tags", "switch-covers-all-tags", db.name, db.loc,
              "all four element tags (xp[0] & 3) are handled", "the element-tag switch no longer covers 0..3")
    seen, st, stuck = set(), [s for s in db.blocks[h].succ if s is not None], False
    while st:
        b = st.pop()
        if b in seen or b in consuming:
            continue
        seen.add(b)
        if b == h:
            stuck = True
            break
        st.extend(s for s in db.blocks[b].succ if s is not None and (b, s) not in dead_edges)
    ctx.check(not stuck, "T1-decoder-progress", "decode_blocks", db.name, db.loc, "every element consumes at least its tag byte",
              "a snappy element can be processed without consuming input")
    rets = [(const_val(e.get("x")), e) for b, i, e in db.events("ret")]
    g = xgraph(ctx.P, db)
    for v, e in rets:
        pass
    fin = [(b, i, e) for (b, i, e) in db.events("ret") if key(e.get("x")) in ("(zn == 0)",) or (const_val(e.get("x")) == 1)]
    ctx.check(any(key(e.get("x")) == "(zn == 0)" for b, i, e in db.events("ret")) or
              any(const_val(e.get("x")) == 1 and holds(g.must_at(b, i), ("==", "zn", "0")) for b, i, e in db.events("ret")),
              "T2-decoder-guard", "decode_blocks:exact-length", db.name, db.loc, "success requires the output to be filled exactly",
              "decode success no longer requires the announced length")


def check_parse_results(ctx):
    """Every parse result is consumed (a dropped 0 is a read of undecoded data)."""
    P = ctx.P
    PF = status.parse_functions(P)
    n = 0
    for f in P.all_functions:
        calls = [(b, i, e) for (b, i, e) in f.events("call") if status._name(e) in PF]
        if not calls:
            continue
        xg = xgraph(P, f)
        dropped = {e["id"]: how for (b, i, e, how) in status.dropped_results(P, f, PF, xg)}
        for b, i, e in calls:
            n += 1
            cal = status._name(e)
            inst = "%s>%s@%s" % (f.name, cal, e["l"].split(":")[1])
            if e["id"] in dropped and (f.name, cal) not in c12.DROP_OK:
                ctx.bad("T4-parse-result-consumed", inst, f.name, site(f, e), "result of %s dropped: %s" % (cal, dropped[e["id"]]),
                        subject="%s>%s" % (f.name, cal))
            else:
                ctx.ok("T4-parse-result-consumed", inst, site(f, e), "parse result used (%s)" % e.get("use"))
    ctx.require(n >= 100, "only %d parse call sites" % n)


def check(ctx):
    check_rows(ctx)
    check_snappy_copies(ctx)
    check_restart_clamp(ctx)
    check_wide_sum(ctx)
    check_internal_key_gate(ctx)
    check_decode_int(ctx)
    check_cursor_pairs(ctx)
    check_arith(ctx)
    check_progress(ctx)
    check_parse_results(ctx)
    tablefmt.check_read_block(ctx)
    tablefmt.check_footer(ctx)
    wal.check_torn_tail(ctx)
    c17.check_layout(ctx)
    c12.check_aborts(ctx)
    c17.check_current(ctx)        # CURRENT: non-empty and newline-terminated before it is used
