"""C10 One handle can be shared by threads without data races.

Decided: (a) lockset - every access to a lock-guarded field is made with its
lock class held, in every calling context reachable from a multi-threaded
root; the exceptions are one symbol each with a reason and a confinement
rule; (b) every ldb_mutex_assert_held contract holds at every call site;
(c) atomic objects are only touched through atomic operations with at least
the required memory order; the no-barrier skiplist accessors are confined
to the single-writer insert path and each level is published after the new
node's own link was written.
Not decided: races through user-supplied callbacks, races inside libc.
"""
from collections import defaultdict

from ..program import key, strip_casts
from ..rules import (BAD, always_before, argkey, check_automaton, find_calls, is_call, never_after, site,
                     stores_of_field_in_program)
from . import lockmodel
from .lockmodel import ST_FUNCTIONS

EXPLANATION = ("Interprocedural lock-state analysis (held lock classes propagated from every root through every "
               "feasible path and call, callbacks resolved through function-pointer slots and bindings) decides the "
               "lockset discipline of all guarded fields, the lock contracts, and an atomic-order table.")
RULE = ("obligation = one guarded access in one calling context / one contract call site / one atomic site / one "
        "confinement rule; non-trivial = the access was reached with a concrete held-set from a root")
MIN_OBLIGATIONS = 400

# (function, struct, field) -> reason.  Each is additionally confined by a rule below.
EXCEPTIONS = {
    ("ldb_write", "ldb_s", "log"): "head-writer protocol: only the queue head logs, between its unlock and relock",
    ("ldb_write", "ldb_s", "logfile"): "head-writer protocol (sync of the log it just wrote)",
    ("ldb_write", "ldb_s", "mem"): "head-writer protocol: single inserter; readers are lock-free by design",
    ("ldb_write", "ldb_waiter_s", "done"): "w.done initialised before the waiter is queued (private stack object)",
    ("ldb_write", "ldb_waiter_s", "status"): "read after w.done was observed under the lock; no later writer",
    ("ldb_versions_apply", "ldb_versions_s", "descriptor_log"): "MANIFEST writer used in the unlocked window; callers are serialised (open / the one background thread)",
    ("ldb_versions_apply", "ldb_versions_s", "descriptor_file"): "same as descriptor_log",
    ("ldb_versions_apply", "ldb_versions_s", "manifest_file_number"): "written only while opening (before the handle is published)",
    ("ldb_test_compact_range", "ldb_manual_s", "begin"): "manual is a stack object, published later under the lock",
    ("ldb_test_compact_range", "ldb_manual_s", "end"): "manual is a stack object, published later under the lock",
    ("ldb_manual_clear", "ldb_manual_s", "tmp_storage"): "manual is unpublished again when it is cleared",
}

ACQ_OK = (2, 4, 5)     # acquire, acq_rel, seq_cst
REL_OK = (3, 4, 5)     # release, acq_rel, seq_cst
LOAD_OPS = ("__atomic_load_n",)
STORE_OPS = ("__atomic_store_n",)
ATOMIC_FIELDS = {
    ("ldb_s", "shutting_down"), ("ldb_s", "has_imm"), ("ldb_arena_s", "usage"),
    ("ldb_limiter_s", "acquires_allowed"), ("ldb_skiplist_s", "max_height"), ("ldb_skipnode_s", "next"),
}


def _order(e):
    from ..program import const_val
    return const_val(e.get("order"))


def check_lockset(ctx):
    P = ctx.P
    la = lockmodel.analysis(ctx)
    called = set()
    for f, outs in P.callgraph().items():
        for g, e in outs:
            called.add(g)
    seen = set()
    n_ok = 0
    used_exc = set()
    for fn, e, s, f, c, held, mode in la.accesses:
        if mode != "mt":
            continue
        if fn.static and fn not in called and fn in la.roots:
            continue      # dead code: a static function nobody calls
        k = (fn.name, e["l"], f, tuple(sorted(held)))
        if k in seen:
            continue
        seen.add(k)
        inst = "%s.%s@%s" % (s, f, fn.name)
        if c in held:
            n_ok += 1
            ctx.ok("T3a-lockset", inst, site(fn, e), "%s held (%s), mode %s" % (c, ",".join(sorted(held)), e["mode"]))
            continue
        ex = EXCEPTIONS.get((fn.name, s, f)) or EXCEPTIONS.get((fn.name, lockmodel._norm(s) + "_s", f))
        if ex is not None:
            used_exc.add((fn.name, s if s.endswith("_s") else lockmodel._norm(s) + "_s", f))
            ctx.ok("T3a-lockset-exception", inst, site(fn, e), "listed exception: " + ex, False)
            continue
        ctx.bad("T3a-lockset", inst, fn.name, site(fn, e),
                "%s.%s (%s) accessed without %s; held: {%s}; reached via %s" %
                (s, f, e["mode"], c, ",".join(sorted(held)), " > ".join(la.chain(fn, held, mode)[-6:])),
                subject="%s.%s" % (s, f))
    # the process-wide table of held file locks (a global, so not a member access): every call that
    # is handed &file_set runs with the FILE mutex held
    nf = 0
    for fn, e, callee, held, mode in la.calls:
        if mode != "mt":
            continue
        if any(argkey(e, k) == "&file_set" for k in range(len(e.get("a", [])))):
            nf += 1
            ctx.check("FILE" in held, "T3a-lockset", "file_set@%s:%s" % (fn.name, e["l"].split(":")[1]), fn.name, site(fn, e),
                      "file_set touched with the FILE mutex held", "file_set is accessed without the FILE mutex", subject="file_set")
    ctx.require(nf >= 3, "accesses to file_set not found (%d)" % nf)
    ctx.require(n_ok >= 300, "lockset: only %d guarded accesses analysed" % n_ok)
    ctx.note("lockset: %d contexts over %d functions; %d guarded accesses recorded" %
             (sum(len(v) for v in la.contexts.values()), len(la.contexts), len(la.accesses)))
    return la


def check_contracts(ctx, la):
    n = 0
    sites = set()
    for fn, e, c, was, mode in la.asserts:
        if mode != "mt":
            continue
        n += 1
        sites.add(fn.name)
        ctx.check(was, "T3b-lock-contract", fn.name, fn.name, site(fn, e),
                  "%s is entered with %s held" % (fn.name, c),
                  "%s requires %s (ldb_mutex_assert_held) but a caller reaches it without; chain %s" %
                  (fn.name, c, " > ".join(la.chain(fn, frozenset(), mode)[-6:])))
    ctx.require(len(sites) >= 12, "only %d functions with a lock contract found" % len(sites))
    # REQUIRES: lock is not held
    vg = ctx.fn("ldb_version_get", "src/version_set.c")
    for H, mode in la.contexts[(vg.file, vg.line, vg.name)]:
        if mode == "mt":
            ctx.check("DB" not in H, "T3b-lock-contract", "ldb_version_get:not-held", vg.name, vg.loc,
                      "ldb_version_get runs without the DB mutex (reads files)",
                      "ldb_version_get is called with the DB mutex held")
    # every wait has its mutex held
    for fn, e, c, was, mode in la.waits:
        ctx.check(was, "T3b-wait-holds-mutex", fn.name, fn.name, site(fn, e), "cond_wait with %s held" % c,
                  "ldb_cond_wait on a mutex (%s) that is not held" % c)


def check_exceptions(ctx, la):
    P = ctx.P
    DB = "src/db_impl.c"
    w = ctx.fn("ldb_write", DB)
    # head-writer protocol: reads only, after this thread went through make_room (i.e. is queue head)
    for fld in ("log", "logfile", "mem"):
        sts = [e for b, i, e in w.events("asg") if key(e["lhs"]) == "db->" + fld]
        ctx.check(not sts, "T5-head-writer", "no-store:" + fld, w.name, w.loc,
                  "ldb_write never stores db->%s" % fld, "ldb_write stores db->%s" % fld)
        always_before(ctx, "T5-head-writer", "after-make-room:" + fld, w,
                      lambda e: is_call(e, "ldb_make_room_for_write"),
                      lambda e, fld=fld: e["e"] == "mem" and e["f"] == fld and key(e["b"]) == "db",
                      "db->%s is touched only after the writer became queue head" % fld)
    allowed = {"mem": {"ldb_create", "ldb_make_room_for_write", "ldb_open", "ldb_recover_log_file"},
               "log": {"ldb_create", "ldb_make_room_for_write", "ldb_open", "ldb_recover_log_file"},
               "logfile": {"ldb_create", "ldb_make_room_for_write", "ldb_open"}}
    for fld, ok in sorted(allowed.items()):
        owners = {f.name for f, b, i, e in stores_of_field_in_program(P, "ldb_s", fld)}
        ctx.check(owners <= ok, "T5-head-writer", "writers:" + fld, "<program>", DB,
                  "db->%s is stored only by %s" % (fld, sorted(owners)),
                  "db->%s is stored by %s (allowed: %s)" % (fld, sorted(owners), sorted(ok)))
    mr = ctx.fn("ldb_make_room_for_write", DB)
    callers = {f.name for f, b, i, e in P.callers_of("ldb_make_room_for_write")}
    ctx.check(callers == {"ldb_write"}, "T5-head-writer", "make-room-callers", mr.name, mr.loc,
              "ldb_make_room_for_write is called only by the queue head in ldb_write",
              "ldb_make_room_for_write is called by %s" % sorted(callers))
    # waiter fields
    never_after(ctx, "T5-waiter-private", "w.done-before-queue", w, lambda e: is_call(e, "ldb_queue_push"),
                lambda e: e["e"] == "asg" and key(e["lhs"]) in ("w.done", "w.sync", "w.batch"),
                "the waiter is initialised before it is queued")
    from ..paths import xgraph
    from ..rules import holds
    g = xgraph(P, w)
    rs = [(b, i, e) for (b, i, e) in w.events("ret") if key(e.get("x")) == "w.status"]
    ctx.require(len(rs) == 1, "ldb_write: `return w.status` not found")
    # facts at the entry of the returning block (ldb_waiter_clear(&w) in that block takes &w)
    ctx.check(holds(g.must_at(rs[0][0], 0), ("!=", "w.done", "0")), "T5-waiter-private", "status-after-done",
              w.name, site(w, rs[0][2]), "w.status is read only after w.done was seen under the lock",
              "w.status is read without having seen w.done")
    # MANIFEST writer: stores confined, callers serialised
    for fld, ok in (("descriptor_log", {"ldb_versions_init", "ldb_versions_apply", "ldb_versions_reuse_manifest"}),
                    ("descriptor_file", {"ldb_versions_init", "ldb_versions_apply", "ldb_versions_reuse_manifest"}),
                    ("manifest_file_number", {"ldb_versions_init", "ldb_versions_recover", "ldb_versions_reuse_manifest"})):
        owners = {f.name for f, b, i, e in stores_of_field_in_program(P, "ldb_versions_s", fld)}
        owners |= {f.name for f in P.all_functions for b, i, e in f.events("call")
                   if any((argkey(e, k) or "").endswith("->" + fld) and (argkey(e, k) or "").startswith("&")
                          for k in range(len(e.get("a", []))))}
        ctx.check(owners <= ok, "T5-manifest-writer", "writers:" + fld, "<program>", "src/version_set.c",
                  "vset->%s is written only by %s" % (fld, sorted(owners)),
                  "vset->%s is written by %s (allowed %s)" % (fld, sorted(owners), sorted(ok)))
    va = ctx.fn("ldb_versions_apply", "src/version_set.c")
    for b, i, e in va.events("asg"):
        if key(e["lhs"]) in ("vset->descriptor_log", "vset->descriptor_file"):
            hs = [held for (fn, ev, s, f, c, held, mode) in la.accesses if fn is va and ev["l"] == _mem_loc(va, b, i, e)]
            ctx.check(all("DB" in h for h in hs) and hs, "T5-manifest-writer", "store-under-lock", va.name, site(va, e),
                      "the MANIFEST writer is replaced only with the DB mutex held",
                      "vset->descriptor_* is stored without the DB mutex")
    roots = _roots_reaching(P, va)
    okroots = {"ldb_open", "ldb_thread_run", "worker_thread", "ldb_c_open"}
    ctx.check(roots <= okroots, "T5-manifest-writer", "serialised-callers", va.name, va.loc,
              "ldb_versions_apply is reachable only from ldb_open and the background thread",
              "ldb_versions_apply is reachable from %s" % sorted(roots - okroots))
    pc = find_calls(ctx.fn("ldb_create", DB), "ldb_pool_create")
    from ..program import const_val
    ctx.check(len(pc) == 1 and const_val(pc[0][2]["a"][0]) == 1, "T5-manifest-writer", "one-bg-thread", "ldb_create", DB,
              "the handle owns exactly one background thread", "the background pool is not single-threaded")
    for fn_name in ("ldb_versions_recover", "ldb_versions_reuse_manifest"):
        f = ctx.fn(fn_name, "src/version_set.c")
        roots = _roots_reaching(P, f)
        ctx.check(roots <= {"ldb_open", "ldb_c_open"}, "T5-manifest-writer", "open-only:" + fn_name, f.name, f.loc,
                  "%s runs only while opening" % fn_name, "%s reachable from %s" % (fn_name, sorted(roots)))
    # manual compaction descriptor private until published
    tr = ctx.fn("ldb_test_compact_range", DB)
    never_after(ctx, "T5-manual-private", "stores-before-publish", tr,
                lambda e: e["e"] == "asg" and key(e["lhs"]) == "db->manual_compaction" and key(e["rhs"]) == "(&manual)",
                lambda e: e["e"] == "asg" and key(e["lhs"]) in ("manual.begin", "manual.end"),
                "manual.begin/end are written before the descriptor is published")
    cl = find_calls(tr, "ldb_manual_clear")
    ctx.require(len(cl) == 1, "ldb_test_compact_range: ldb_manual_clear not found")
    pubs = [(b, i, e) for (b, i, e) in tr.events("asg") if key(e["lhs"]) == "db->manual_compaction"]

    def step(q, e, st, b, i):
        # q: 0 unpublished, 1 maybe published
        if q == BAD:
            return q
        if e["e"] == "asg" and key(e["lhs"]) == "db->manual_compaction":
            return 1 if key(e["rhs"]) == "(&manual)" else 0
        if is_call(e, "ldb_manual_clear") and q == 1:
            return BAD
        return q

    def edge(q, lit):
        if q == BAD or lit is None or lit[0] in ("case", "default"):
            return q
        from ..rules import rel_edge
        if rel_edge(lit[0], lit[1], "!=", "db->manual_compaction", "(&manual)"):
            return 0
        return q
    check_automaton(ctx, "T5-manual-private", "clear-after-unpublish", tr, 0, step, edge,
                    "the descriptor is cleared only after it is no longer published")


def _mem_loc(fn, b, i, e):
    l = strip_casts(e["lhs"])
    # the member event of the lhs is emitted just before the asg event
    for x in reversed(fn.blocks[b].ev[:i]):
        if x["e"] == "mem" and x["f"] == l["f"] and x["mode"] in ("w", "rw"):
            return x["l"]
    return e["l"]


def _roots_reaching(P, target):
    cg = P.callgraph()
    rev = defaultdict(set)
    for f, outs in cg.items():
        for g, e in outs:
            rev[g].add(f)
    seen = set()
    st = [target]
    roots = set()
    while st:
        f = st.pop()
        if f in seen:
            continue
        seen.add(f)
        if not rev.get(f):
            roots.add(f.name)
        for g in rev.get(f, ()):
            st.append(g)
    return roots


def check_atomics(ctx):
    P = ctx.P
    n = 0
    for f in P.all_functions:
        for b, i, e in f.events("atomic"):
            obj = key(e["p"])
            o = _order(e)
            name = e["name"]
            init = "ldb_atomic_init" in (e.get("mac") or ())
            if init:
                continue
            if obj.endswith("->shutting_down)") or obj.endswith("->has_imm)"):
                fld = "shutting_down" if "shutting_down" in obj else "has_imm"
                n += 1
                if name in STORE_OPS:
                    ctx.check(o in REL_OK, "T9-atomic-order", "%s:store@%s" % (fld, f.name), f.name, site(f, e),
                              "release store of %s" % fld, "store of %s with memory order %s (needs release)" % (fld, o))
                elif name in LOAD_OPS:
                    relaxed_ok = fld == "has_imm" and f.name == "ldb_do_compaction_work"
                    ok = o in ACQ_OK or (relaxed_ok and o is not None)
                    ctx.check(ok, "T9-atomic-order", "%s:load@%s" % (fld, f.name), f.name, site(f, e),
                              "acquire load of %s%s" % (fld, " (relaxed poll, re-checked under the mutex)" if relaxed_ok and o not in ACQ_OK else ""),
                              "load of %s with memory order %s (needs acquire)" % (fld, o))
                else:
                    ctx.bad("T9-atomic-order", "%s:%s" % (fld, name), f.name, site(f, e), "unexpected atomic op %s on %s" % (name, fld))
            elif "->next[" in obj:
                n += 1
                want = {"ldb_skipnode_set": ("store", REL_OK), "ldb_skipnode_next": ("load", ACQ_OK),
                        "ldb_skipnode_set_nb": ("store", None), "ldb_skipnode_next_nb": ("load", None)}.get(f.name)
                if want is None:
                    ctx.bad("T9-atomic-order", "skipnode@%s" % f.name, f.name, site(f, e),
                            "skiplist link accessed outside the four accessor functions")
                    continue
                kind, okset = want
                okk = (kind == "store" and name in STORE_OPS) or (kind == "load" and name in LOAD_OPS)
                ctx.check(okk and (okset is None or o in okset), "T9-atomic-order", "skipnode:%s" % f.name, f.name,
                          site(f, e), "%s uses %s with order %s" % (f.name, name, o),
                          "%s uses %s with memory order %s" % (f.name, name, o))
            else:
                n += 1
                ctx.ok("T9-atomic-rmw", "%s@%s" % (obj, f.name), site(f, e), "%s on counter %s" % (name, obj))
    ctx.require(n >= 20, "only %d atomic sites found" % n)
    # the relaxed has_imm poll is re-checked under the mutex
    dw = ctx.fn("ldb_do_compaction_work", "src/db_impl.c")
    always_before(ctx, "T9-atomic-order", "has_imm-recheck", dw, lambda e: is_call(e, "ldb_mutex_lock"),
                  lambda e: is_call(e, "ldb_compact_memtable"), "db->imm is re-tested under the mutex after the relaxed poll")
    # atomic objects are never read or written as plain memory
    for f in P.all_functions:
        for b, i, e in f.events("mem"):
            if (lockmodel._norm(e.get("s")) + "_s", e["f"]) in ATOMIC_FIELDS and e["mode"] in ("r", "w", "rw"):
                ctx.bad("T9-atomic-plain-access", "%s.%s@%s" % (e.get("s"), e["f"], f.name), f.name, site(f, e),
                        "atomic object %s.%s is accessed as plain memory (%s)" % (e.get("s"), e["f"], e["mode"]))
    ctx.ok("T9-atomic-plain-access", "scan", "<program>", "no atomic object is accessed without an atomic builtin")
    # no-barrier accessors: single-writer path only
    for nb in ("ldb_skipnode_set_nb", "ldb_skipnode_next_nb"):
        callers = {f.name for f, b, i, e in P.callers_of(nb)}
        ctx.check(callers == {"ldb_skiplist_insert"}, "T5-skiplist-nb", nb, "<program>", "src/skiplist.c",
                  "%s is used only by ldb_skiplist_insert" % nb, "%s is used by %s" % (nb, sorted(callers)))
    ins = ctx.fn("ldb_skiplist_insert", "src/skiplist.c")
    # publish (release store into prev[i]) after the new node's own link was written
    always_before(ctx, "T1-skiplist-publish", "own-link<publish", ins,
                  lambda e: is_call(e, "ldb_skipnode_set_nb") and argkey(e, 0) == "x",
                  lambda e: is_call(e, "ldb_skipnode_set") and argkey(e, 2) == "x",
                  "a level is published only after the new node's link at that level is set")
    pubs = [e for b, i, e in find_calls(ins, "ldb_skipnode_set")]
    ctx.check(len(pubs) == 1 and argkey(pubs[0], 0) == "prev[i]" and argkey(pubs[0], 2) == "x", "T1-skiplist-publish",
              "release-publish", ins.name, ins.loc, "the new node is published through ldb_skipnode_set (release)",
              "the new node is not published through the release accessor")
    raw = [e for b, i, e in ins.events("asg") if "->next[" in key(e["lhs"])]
    ctx.check(not raw, "T1-skiplist-publish", "no-raw-link-store", ins.name, ins.loc,
              "links are written only through the accessors", "ldb_skiplist_insert writes a link directly")
    never_after(ctx, "T1-skiplist-publish", "no-write-after-publish", ins,
                lambda e: is_call(e, "ldb_skipnode_set") and argkey(e, 2) == "x",
                lambda e: is_call(e, "ldb_skipnode_init") or (e["e"] == "asg" and key(e["lhs"]) == "x->key"),
                "the node's key is not written after publication")
    cr = find_calls(ins, "ldb_skipnode_create")
    ctx.check(len(cr) == 1, "T1-skiplist-publish", "create", ins.name, ins.loc, "node created once (key set in create)",
              "node creation changed")


def check_dbiter_confined(ctx):
    """Structural facts the vtable resolution of the lock analysis relies on."""
    P = ctx.P
    callers = {(f.name, e.get("use")) for f, b, i, e in P.callers_of("ldb_dbiter_create")}
    ctx.check(callers == {("ldb_iterator", "ret")}, "T5-dbiter-confined", "ldb_dbiter_create", "<program>",
              "src/db_impl.c", "DB iterators are created only by ldb_iterator and returned to the user",
              "ldb_dbiter_create is used by %s" % sorted(callers))
    users = set()
    for f, b, i, e in P.callers_of("ldb_internal_iterator"):
        users.add(f.name)
    ctx.check(users == {"ldb_iterator", "ldb_test_internal_iterator"}, "T5-istate-confined", "ldb_internal_iterator",
              "<program>", "src/db_impl.c",
              "iterators carrying cleanup_iter_state come only from ldb_iterator / the test API",
              "ldb_internal_iterator is used by %s" % sorted(users))
    regs = {f.name for f in P.all_functions for b, i, e in f.events("call")
            if e.get("f") == "ldb_iter_register_cleanup" and argkey(e, 1) == "cleanup_iter_state"}
    ctx.check(regs == {"ldb_internal_iterator"}, "T5-istate-confined", "register", "<program>", "src/db_impl.c",
              "cleanup_iter_state is registered only by ldb_internal_iterator",
              "cleanup_iter_state is registered by %s" % sorted(regs))
    it = ctx.fn("ldb_iterator", "src/db_impl.c")
    c = find_calls(it, "ldb_dbiter_create")
    ctx.check(len(c) == 1 and argkey(c[0][2], 2) == "iter" and
              any(e["e"] == "asg" and key(e["lhs"]) == "iter" and key(e["rhs"]).startswith("ldb_internal_iterator(")
                  for b, i, e in it.events("asg")), "T5-istate-confined", "flows-into-dbiter", it.name, it.loc,
              "the internal iterator flows only into ldb_dbiter_create", "internal iterator flow changed")


STATIC_LOCALS_OK = {("ldb_crc32c_init", "result"): "one-time initialisation flag (volatile, idempotent)",
                    ("ldb_crc32c_init", "lock"): "one-time initialisation flag (volatile, idempotent)",
                    ("ldb_env_init", "guard"): "pthread_once control block"}


def check_static_locals(ctx):
    """Function-local static storage is shared by every thread and every
    iterator of the process: a mutable one is a hidden global without a lock
    (e.g. a slice returned by one iterator silently changes when another
    iterator runs)."""
    n = 0
    for f in ctx.P.all_functions:
        for b, i, e in f.events("decl"):
            if not e.get("static"):
                continue
            n += 1
            t = e.get("t") or ""
            const = t.startswith("const ") or " const" in t
            ok = const or (f.name, e["n"]) in STATIC_LOCALS_OK
            ctx.check(ok, "T5-static-locals", "%s:%s" % (f.name, e["n"]), f.name, site(f, e),
                      "constant table" if const else "listed: %s" % STATIC_LOCALS_OK.get((f.name, e["n"])),
                      "mutable function-local static `%s %s` in %s: storage shared by all threads and iterators without a lock" % (t, e["n"], f.name),
                      subject="static:%s:%s" % (f.name, e["n"]))
    ctx.require(n >= 10, "static locals not found (%d)" % n)


def check(ctx):
    from . import c09 as _c09
    _c09.check_signal_after_change(ctx)   # a condition variable is signalled while its mutex is held (the waiter may free it right after)
    check_static_locals(ctx)
    la = check_lockset(ctx)
    check_contracts(ctx, la)
    check_exceptions(ctx, la)
    check_atomics(ctx)
    check_dbiter_confined(ctx)
    from . import c13, c09
    c09.check_manual_cancel(ctx)  # a stack object published to the background thread outlives the background's use of it
    c13.check_cache_pins(ctx)
    c13.check_version_pointer_lifetime(ctx)   # a version is read only under the mutex or through a reference     # objects reached through a cache handle are not touched after the handle is released
