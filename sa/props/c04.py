"""C04 Write batches are all-or-nothing.

Decided: one log record per commit group fed from the same batch object that
is inserted; the sequence range is published only after the memtable insert
(never between allocation and insert); batch decoding rejects a count
mismatch; the log reader delivers only complete logical records.
Not decided: atomicity as observed through a concrete concurrent history.
"""
from .. import witness
from ..paths import xgraph
from ..program import const_val, key, strip_casts
from ..rules import (BAD, argkey, always_before, call_ok_dominates, check_automaton, find_calls, fmt_atoms,
                     holds, is_call, never_after, one_call, site)
from . import wal

EXPLANATION = ("Static decision of the atomicity clauses of C04 over every feasible CFG path of ldb_write, "
               "ldb_batch_iterate and ldb_reader_read_record: single log record per group, publish-after-insert "
               "ordering of the visible sequence number, count/fragment guards.")
RULE = "obligation = one ordering / guard instance at one site; non-trivial = matched a site and walked a path"
MIN_OBLIGATIONS = 30
DB = "src/db_impl.c"


def check_write(ctx):
    f = ctx.fn("ldb_write", DB)
    add = one_call(ctx, f, "ldb_writer_add_record")
    ins = one_call(ctx, f, "ldb_batch_insert_into")
    ctx.check(len(add) == 1, "T1-one-record-per-group", "static-count", f.name, f.loc,
              "ldb_write has a single log append site", "ldb_write has %d log append sites" % len(add))

    # at most one append per invocation
    def step(q, e, st, b, i):
        if q == BAD:
            return q
        if is_call(e, "ldb_writer_add_record"):
            return BAD if q == 1 else 1
        return q
    check_automaton(ctx, "T1-one-record-per-group", "dynamic-count", f, 0, step, None,
                    "no path appends two log records for one commit group")
    # same batch object feeds log and memtable
    wb = [e for b, i, e in f.events("decl") if e["n"] == "write_batch"]
    ctx.check(bool(wb) and key(wb[0].get("init")).startswith("ldb_build_batch_group("), "T6-batch-identity",
              "group", f.name, f.loc, "write_batch = ldb_build_batch_group(...)",
              "write_batch no longer comes from ldb_build_batch_group")
    cont = [e for b, i, e in f.events("asg") if key(e["lhs"]) == "contents"]
    ok = len(cont) == 1 and key(cont[0]["rhs"]) == "ldb_batch_contents(write_batch)" and \
        argkey(add[0][2], 1) == "&contents" and argkey(ins[0][2], 0) == "write_batch"
    ctx.check(ok, "T6-batch-identity", "log==memtable", f.name, site(f, add[0][2]),
              "the logged bytes and the inserted batch are the same write_batch",
              "log record and memtable insert use different batches: %s / %s" %
              ([key(x["rhs"]) for x in cont], argkey(ins[0][2], 0)))
    ctx.check(argkey(ins[0][2], 1) == "db->mem", "T6-batch-identity", "into-mem", f.name, site(f, ins[0][2]),
              "the batch is inserted into db->mem", "the batch is inserted into %s" % argkey(ins[0][2], 1))
    call_ok_dominates(ctx, "T2-log-before-memtable", "insert", f, ins[0], "ldb_writer_add_record",
                      "inserting the batch into the memtable")
    # sequence allocation and publication
    ss = one_call(ctx, f, "ldb_batch_set_sequence")
    ctx.check(argkey(ss[0][2], 0) == "write_batch" and argkey(ss[0][2], 1) == "(last_sequence + 1)",
              "T6-sequence-range", "first", f.name, site(f, ss[0][2]),
              "the group's first sequence is last_sequence + 1",
              "sequence stamped as %s" % argkey(ss[0][2], 1))
    ls = [e for b, i, e in f.events("asg") if key(e["lhs"]) == "last_sequence"]
    ks = sorted((e["op"], key(e["rhs"])) for e in ls)
    ctx.check(ks == [("+=", "ldb_batch_count(write_batch)"), ("=", "db->versions->last_sequence")],
              "T6-sequence-range", "extent", f.name, f.loc,
              "last_sequence = versions->last_sequence; += ldb_batch_count(write_batch)",
              "sequence arithmetic changed: %s" % ks)
    pub = [(b, i, e) for (b, i, e) in f.events("asg") if key(e["lhs"]) == "db->versions->last_sequence"]
    ctx.require(len(pub) >= 1, "ldb_write: publication of last_sequence not found")
    for b, i, e in pub:
        ctx.check(key(e["rhs"]) == "last_sequence", "T6-sequence-range", "publish", f.name, site(f, e),
                  "the published value is the end of the allocated range", "published value is %s" % key(e["rhs"]))
    is_pub = lambda e: e["e"] == "asg" and key(e["lhs"]) == "db->versions->last_sequence"
    never_after(ctx, "T1-publish-after-insert", "no-insert-after-publish", f, is_pub,
                lambda e: is_call(e, ("ldb_batch_insert_into", "ldb_writer_add_record")),
                "the new sequence number is never visible before the batch is in the memtable")
    never_after(ctx, "T1-publish-after-insert", "no-unlock-window", f, is_pub,
                lambda e: is_call(e, "ldb_batch_insert_into"),
                "no insert follows the publication", until=None)
    always_before(ctx, "T1-publish-after-insert", "alloc<publish", f,
                  lambda e: is_call(e, "ldb_batch_set_sequence"), is_pub,
                  "publication follows the allocation of the range")

    # between allocation and publication the lock is released exactly around log+insert:
    # publication happens after the relock that follows the insert
    def step2(q, e, st, b, i):
        # 0 start, 1 after set_sequence, 2 after unlock, 3 after relock
        if q == BAD:
            return q
        if is_call(e, "ldb_batch_set_sequence"):
            return 1
        if q == 1 and is_call(e, "ldb_mutex_unlock"):
            return 2
        if q == 2 and is_call(e, "ldb_mutex_lock"):
            return 3
        if is_pub(e) and q in (1, 2):
            return BAD
        return q
    check_automaton(ctx, "T1-publish-after-insert", "after-relock", f, 0, step2, None,
                    "the sequence is published only after the lock was re-taken behind the insert")


def check_group_ack(ctx):
    """A queued writer is covered by the leader's acknowledgement (*last_writer = w)
    only after its batch was appended to the group (or it has no batch)."""
    from ..rules import truth_of, rel_edge
    f = ctx.fn("ldb_build_batch_group", DB)
    is_ack = lambda e: e["e"] == "asg" and key(e["lhs"]) == "(*last_writer)" and key(e["rhs"]) == "w"
    ctx.require(any(is_ack(e) for b, i, e in f.events("asg")), "ldb_build_batch_group: *last_writer = w not found")

    def step(q, e, st, b, i):
        if q == BAD:
            return q
        if e["e"] == "asg" and key(e["lhs"]) == "w":
            return 0                      # next queued writer
        if is_call(e, "ldb_batch_append") and argkey(e, 1) == "w->batch":
            return 1
        if is_ack(e) and q == 0:
            return BAD
        return q

    def edge(q, lit):
        if q == 0 and lit is not None and lit[0] not in ("case", "default"):
            if truth_of(lit[0], lit[1], "w->batch") is False or rel_edge(lit[0], lit[1], "==", "w->batch", 0):
                return 1                  # a writer without a batch (compaction request) has nothing to append
        return q
    check_automaton(ctx, "T1-group-ack-after-append", "last_writer", f, 0, step, edge,
                    "a follower is acknowledged by the leader only after its batch joined the group")
    first = [e for b, i, e in f.events("asg") if key(e["lhs"]) == "(*last_writer)" and key(e["rhs"]) == "first"]
    ctx.check(len(first) == 1, "T1-group-ack-after-append", "starts-with-leader", f.name, f.loc,
              "the group initially covers only the leader", "initial last_writer changed")
    # the size limit is tested before the append
    from ..rules import never_after
    never_after(ctx, "T1-group-ack-after-append", "limit-before-append", f,
                lambda e: is_call(e, "ldb_batch_append") and argkey(e, 1) == "w->batch",
                lambda e: e["e"] == "asg" and key(e["lhs"]) == "size" and e["op"] == "+=",
                "the group size is accounted before the batch is appended",
                until=lambda e: e["e"] == "asg" and key(e["lhs"]) == "w")


def check_iterate(ctx):
    f = ctx.fn("ldb_batch_iterate", "src/write_batch.c")
    g = xgraph(ctx.P, f)
    n = 0
    for b, i, e in f.events("ret"):
        if const_val(e.get("x")) == 0:
            n += 1
            atoms = g.must_at(b, i)
            ctx.check(holds(atoms, ("==", "found", ("CALL", "ldb_batch_count"))), "T2-batch-count", "ok-return",
                      f.name, site(f, e), "LDB_OK only if the number of decoded entries equals the header count",
                      "LDB_OK returned without the count check; facts: %s" % fmt_atoms(atoms))
    ctx.require(n == 1, "ldb_batch_iterate: expected one `return LDB_OK`")
    from ..rules import incr_events
    inc = [e for b, i, e in incr_events(f, "found", 1)]
    ctx.check(len(inc) == 1, "T2-batch-count", "counted-once", f.name, f.loc,
              "every decoded entry is counted once", "entry counting changed (%d increments)" % len(inc))
    # handlers run only after the entry was fully decoded
    for slot in ("put", "del"):
        for b, i, e in f.events("call"):
            fp = e.get("fp")
            if fp is not None and key(fp).endswith("handler->" + slot):
                atoms = g.must_at(b, i)
                need = 2 if slot == "put" else 1
                have = len([a for a in atoms if a[0] == "!=" and a[1].startswith("ldb_slice_slurp(") and a[2] == "0"])
                ctx.check(have >= need, "T2-batch-entry-decoded", slot, f.name, site(f, e),
                          "%s handler runs after %d successful slurps" % (slot, need),
                          "%s handler runs with only %d successful slurps" % (slot, have))
    ins = ctx.fn("ldb_batch_insert_into", "src/write_batch.c")
    ret = [e for b, i, e in ins.events("ret")]
    ctx.check(len(ret) == 1 and key(ret[0].get("x")).startswith("ldb_batch_iterate("), "T4-insert-status", "ret",
              ins.name, ins.loc, "insert_into returns the decoder's status", "insert_into drops the decoder status")


def check_scratch_reset(ctx):
    """The group-commit scratch batch is shared by all groups: whoever built a
    group into it empties it again on every path, failed writes included -
    otherwise the next group is appended to the updates of a failed one and
    commits them."""
    from ..rules import must_pass_before_success, rel_edge
    f = ctx.fn("ldb_write", "src/db_impl.c")
    must_pass_before_success(ctx, "T1-group-scratch-reset", "ldb_write", f,
                             lambda e: is_call(e, "ldb_build_batch_group"),
                             lambda e: is_call(e, "ldb_batch_reset") and argkey(e, 0) == "db->tmp_batch",
                             "a group built into the shared scratch batch is cleared again on every path",
                             success=lambda e, st: True,
                             edge_pass=lambda lit: rel_edge(lit[0], lit[1], "!=", "write_batch", "db->tmp_batch"))
    g = ctx.fn("ldb_build_batch_group", "src/db_impl.c")
    res = [key(e["rhs"]) for b, i, e in g.events("asg") if key(e["lhs"]) == "result"]
    ctx.check("db->tmp_batch" in res and "first->batch" in res, "T1-group-scratch-reset", "group-uses-scratch", g.name, g.loc,
              "a merged group is built in db->tmp_batch, a single writer's batch is used as is", "group result comes from %s" % res)


def check(ctx):
    from . import c01 as _c01b
    _c01b.check_compaction_drop(ctx)   # compaction keeps every version some live snapshot still sees
    witness.run(ctx, "C04")
    check_write(ctx)
    check_scratch_reset(ctx)
    check_group_ack(ctx)
    check_iterate(ctx)
    wal.check_reassembly(ctx)
    wal.check_silent_skip(ctx)
    wal.check_emit(ctx)
