"""Frozen tables for the lock-state rules (DESIGN Appendix A), shared by C08,
C09, C10, C13, C20."""
from ..locks import LockAnalysis, default_roots, _norm

DBF = "src/db_impl.c"

# (struct, field) -> lock class guarding it.  A third element restricts the row to accesses made
# from functions of that file (two different structs are both called ldb_queue_s).
GUARDED_ROWS = [
    # struct ldb_s: "State below is protected by mutex"
    ("ldb_s", "mem", "DB"), ("ldb_s", "imm", "DB"), ("ldb_s", "logfile", "DB"), ("ldb_s", "logfile_number", "DB"),
    ("ldb_s", "log", "DB"), ("ldb_s", "seed", "DB"), ("ldb_s", "writers", "DB"), ("ldb_s", "tmp_batch", "DB"),
    ("ldb_s", "snapshots", "DB"), ("ldb_s", "pending_outputs", "DB"),
    ("ldb_s", "background_compaction_scheduled", "DB"), ("ldb_s", "manual_compaction", "DB"),
    ("ldb_s", "bg_error", "DB"), ("ldb_s", "stats", "DB"),
    # version set
    ("ldb_versions_s", "next_file_number", "DB"), ("ldb_versions_s", "manifest_file_number", "DB"),
    ("ldb_versions_s", "last_sequence", "DB"), ("ldb_versions_s", "log_number", "DB"),
    ("ldb_versions_s", "prev_log_number", "DB"), ("ldb_versions_s", "descriptor_file", "DB"),
    ("ldb_versions_s", "descriptor_log", "DB"), ("ldb_versions_s", "dummy_versions", "DB"),
    ("ldb_versions_s", "current", "DB"), ("ldb_versions_s", "compact_pointer", "DB"),
    ("ldb_version_s", "refs", "DB"), ("ldb_version_s", "next", "DB"), ("ldb_version_s", "prev", "DB"),
    ("ldb_version_s", "file_to_compact", "DB"), ("ldb_version_s", "file_to_compact_level", "DB"),
    ("ldb_version_s", "compaction_score", "DB"), ("ldb_version_s", "compaction_level", "DB"),
    ("ldb_memtable_s", "refs", "DB"),
    ("ldb_filemeta_s", "refs", "DB"), ("ldb_filemeta_s", "allowed_seeks", "DB"),
    ("ldb_snapshot_s", "prev", "DB"), ("ldb_snapshot_s", "next", "DB"), ("ldb_snaplist_s", "head", "DB"),
    ("ldb_manual_s", "done", "DB"), ("ldb_manual_s", "begin", "DB"), ("ldb_manual_s", "end", "DB"),
    ("ldb_manual_s", "level", "DB"), ("ldb_manual_s", "tmp_storage", "DB"),
    ("ldb_waiter_s", "status", "DB"), ("ldb_waiter_s", "done", "DB"), ("ldb_waiter_s", "next", "DB"),
    ("ldb_queue_s", "head", "DB", "src/db_impl.c"), ("ldb_queue_s", "tail", "DB", "src/db_impl.c"),
    ("ldb_queue_s", "length", "DB", "src/db_impl.c"),
    # thread pool
    ("ldb_queue_s", "head", "POOL", "src/util/thread_pool.c"), ("ldb_queue_s", "tail", "POOL", "src/util/thread_pool.c"),
    ("ldb_queue_s", "length", "POOL", "src/util/thread_pool.c"),
    ("ldb_pool_s", "queue", "POOL"), ("ldb_pool_s", "running", "POOL"), ("ldb_pool_s", "left", "POOL"),
    ("ldb_pool_s", "stop", "POOL"),
    # LRU cache
    ("lru_shard_s", "usage", "SHARD"), ("lru_shard_s", "list", "SHARD"), ("lru_shard_s", "in_use", "SHARD"),
    ("lru_shard_s", "table", "SHARD"),
    ("ldb_entry_s", "refs", "SHARD"), ("ldb_entry_s", "in_cache", "SHARD"), ("ldb_entry_s", "next", "SHARD"),
    ("ldb_entry_s", "prev", "SHARD"), ("ldb_entry_s", "next_hash", "SHARD"),
    ("ldb_lru_s", "last_id", "LRUID"),
]


class Guarded(dict):
    """Lookup (struct, field) with the file restriction of some rows."""
    def __init__(self):
        dict.__init__(self)
        self.by_file = {}
        for r in GUARDED_ROWS:
            k = (_norm(r[0]), r[1])
            if len(r) == 4:
                self.by_file.setdefault(k, []).append((r[3], r[2]))
            else:
                self[k] = r[2]

    def lookup(self, struct, field, file):
        k = (_norm(struct), field)
        if k in self.by_file:
            for suffix, c in self.by_file[k]:
                if file.endswith(suffix):
                    return c
            return None
        return self.get(k)


# Functions that run while their object is private to one thread (constructors before publication,
# destructors after the last reference / after close has waited for the background thread), and the
# single-threaded tools.  Everything they call is analysed in single-threaded mode too.
ST_FUNCTIONS = {
    "ldb_create": "constructor: handle not published yet",
    "ldb_destroy_internal": "close: waits for background work under the lock, then tears down; API contract: no concurrent calls during close",
    "ldb_versions_create": "constructor", "ldb_versions_init": "constructor",
    "ldb_versions_destroy": "destructor", "ldb_versions_clear": "destructor",
    "ldb_version_init": "constructor (version private until appended)",
    "ldb_version_create": "constructor (version private until appended)",
    "ldb_memtable_create": "constructor", "ldb_memtable_init": "constructor",
    "ldb_filemeta_init": "constructor", "ldb_filemeta_create": "constructor", "ldb_filemeta_clone": "constructor",
    "ldb_filemeta_copy": "constructor",
    "ldb_waiter_init": "constructor: waiter is a stack object not yet queued",
    "ldb_manual_init": "constructor: stack object not yet published",
    "ldb_queue_init": "constructor", "ldb_snaplist_init": "constructor", "ldb_snapshot_init": "constructor",
    "ldb_pool_create": "constructor", "lru_shard_init": "constructor", "ldb_lru_create": "constructor",
    "lru_shard_clear": "destructor", "ldb_lru_destroy": "destructor",
    "ldb_logger_fopen": "constructor", "ldb_logger_create": "constructor",
    "ldb_repair": "single-threaded tool on a closed database",
    "ldb_destroy": "single-threaded tool on a closed database",
    "ldb_copy": "single-threaded tool on a closed database",
    "ldb_dump_file": "single-threaded tool",
}


def analysis(ctx, P=None):
    P = P or ctx.P
    la = getattr(P, "_lock_analysis", None)
    if la is not None:
        return la
    g = Guarded()
    la = LockAnalysis(P, guarded=g, st_functions=ST_FUNCTIONS)
    roots, passed = default_roots(P)
    for f in roots:
        la.analyse(f)
    for f in passed:
        if (f.file, f.line, f.name) not in la.contexts:
            la.analyse(f)
    la.roots = roots
    P._lock_analysis = la
    return la
