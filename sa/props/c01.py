"""C01 Reads return the latest write, whatever the engine did in between.

Decided (each a necessary condition; breaking it yields a stale or missing
read): lookup precedence memtable > immutable memtable > version; level-0
files consulted newest first and the search stops at the first decisive
answer; internal keys ordered by descending sequence; a compaction drops an
entry only when a newer one at or below the oldest snapshot exists, and a
tombstone only at the base level; compaction inputs are extended by boundary
files; a flushed memtable is pushed below level 0 only without overlap; a
table lookup skips a block only on a negative filter answer; tombstones end
the search.
Not decided: that seeks land on the right entry, binary searches, cache-key
uniqueness, every level layout.
"""
from ..build import AnalysisBroken
from ..paths import xgraph
from ..program import const_val, key, strip_casts
from ..rules import (is_incr, incr_events, BAD, Unsupported, always_before, argkey, cfg_sign_triple, check_automaton, check_guard,
                     cmp_edge, find_calls, fmt_atoms, holds, is_call, must_cross_edge_before, must_pass_before_success,
                     need_call, never_after, one_call, rel_edge, site, truth_of, CALL)
from . import c13

EXPLANATION = ("Static decision of the read-path and compaction clauses of C01: guard dominance / edge automata for "
               "lookup precedence and drop rules, comparator ordering analysis (abstract evaluation of the comparator "
               "CFG under the three orderings of its operands) for newest-first and sequence-descending order, "
               "call-order rules for boundary inputs, switch exhaustiveness for the saver states.")
RULE = "obligation = one precedence / ordering / guard / table instance; non-trivial = walked a path or evaluated an ordering"
MIN_OBLIGATIONS = 45
DB = "src/db_impl.c"
VS = "src/version_set.c"


def _sign(ctx, rule, inst, fn, a, b, want, what, tie=("r",)):
    try:
        tr = cfg_sign_triple(fn, a, b, tie_vars=tie)
    except Unsupported as u:
        raise AnalysisBroken("%s: %s" % (fn.name, u))
    ctx.check(tr == want, rule, inst, fn.name, fn.loc, "%s: sign triple %s for (%s < = > %s)" % (what, tr, a, b),
              "%s: sign triple is %s, expected %s" % (what, tr, want))


def check_get(ctx):
    g = ctx.fn("ldb_get", DB)
    vg = one_call(ctx, g, "ldb_version_get")[0]
    probes = find_calls(g, "ldb_memtable_get")
    ctx.require(len(probes) == 2, "ldb_get: expected two memtable probes")
    # the version is consulted only if neither memtable answered
    must_cross_edge_before(ctx, "T2-lookup-precedence", "mem-before-version", g,
                           lambda c, p: _call_truth(c, p, "ldb_memtable_get", "mem") is False,
                           lambda e: is_call(e, "ldb_version_get"),
                           "the table files are searched only after the memtable missed")
    must_cross_edge_before(ctx, "T2-lookup-precedence", "imm-before-version", g,
                           lambda c, p: _call_truth(c, p, "ldb_memtable_get", "imm") is False or truth_of(c, p, "imm") is False
                           or rel_edge(c, p, "==", "imm", 0),
                           lambda e: is_call(e, "ldb_version_get"),
                           "the table files are searched only after the immutable memtable missed (or there is none)")
    must_cross_edge_before(ctx, "T2-lookup-precedence", "mem-before-imm", g,
                           lambda c, p: _call_truth(c, p, "ldb_memtable_get", "mem") is False,
                           lambda e: is_call(e, "ldb_memtable_get") and argkey(e, 0) == "imm",
                           "the immutable memtable is searched only after the memtable missed")
    for b, i, e in probes:
        ctx.check(argkey(e, 1) == "&lkey" and argkey(e, 3) == "&rc", "T2-lookup-precedence", "probe-args:" + argkey(e, 0),
                  g.name, site(g, e), "probe uses the lookup key and reports into rc", "probe arguments changed")
    ctx.check(argkey(vg[2], 2) == "&lkey" and vg[2].get("use") in ("assign", "init"), "T2-lookup-precedence", "version-args",
              g.name, site(g, vg[2]), "version lookup uses the lookup key, status kept", "version lookup arguments changed")
    # tombstone in the memtable ends the search
    mg = ctx.fn("ldb_memtable_get", "src/memtable.c")
    gm = xgraph(ctx.P, mg)
    n = 0
    for b, i, e in mg.events("asg"):
        if key(e["lhs"]) == "(*status)":
            n += 1
            ctx.check("LDB_NOTFOUND" in (strip_casts(e["rhs"]).get("mac") or []) and
                      holds(gm.must_at(b, i), ("==", "re:.*tag & 255.*", 0)), "T2-tombstone-ends-search", "memtable:status",
                      mg.name, site(mg, e), "a deletion marker reports NOTFOUND", "memtable tombstone status changed")
    ctx.check(n == 1, "T2-tombstone-ends-search", "memtable:status-site", mg.name, mg.loc, "one tombstone status site",
              "tombstone handling in ldb_memtable_get changed (%d sites)" % n)
    for b, i, e in mg.events("ret"):
        v = const_val(e.get("x"))
        atoms = gm.must_at(b, i)
        if v == 1:
            ctx.check(holds(atoms, ("==", CALL("ldb_compare_internal"), "0")) or holds(atoms, ("==", "re:.*compare.*#\\d+", "0")),
                      "T2-tombstone-ends-search", "memtable:found@%s" % e["l"].split(":")[1], mg.name, site(mg, e),
                      "found (value or tombstone) only for the same user key", "memtable reports found for another user key")
    rets1 = [e for b, i, e in mg.events("ret") if const_val(e.get("x")) == 1]
    ctx.check(len(rets1) == 2, "T2-tombstone-ends-search", "memtable:both-types-found", mg.name, mg.loc,
              "both value and tombstone return found", "ldb_memtable_get has %d found-returns" % len(rets1))
    sk = one_call(ctx, mg, "ldb_skipiter_seek")[0][2]
    mk = [e for b, i, e in mg.events("decl") if e["n"] == "mkey"]
    ctx.check(argkey(sk, 1) == "mkey.data" and mk and "ldb_lkey_memtable_key" in _macs(mk[0].get("init")),
              "T2-tombstone-ends-search", "memtable:seek-key", mg.name, site(mg, sk),
              "the memtable is sought at (user key, snapshot sequence)", "memtable seek key changed")


def _macs(t):
    t = strip_casts(t)
    return tuple(t.get("mac") or ()) if isinstance(t, dict) else ()


def _call_truth(c, p, name, arg0):
    c = strip_casts(c)
    while isinstance(c, dict) and c.get("k") == "un" and c.get("op") == "!":
        p = not p
        c = strip_casts(c["x"])
    if isinstance(c, dict) and c.get("k") == "call" and c.get("f") == name and key(c["a"][0]) == arg0:
        return p
    return None


def check_version_get(ctx):
    P = ctx.P
    fe = ctx.fn("ldb_version_for_each_overlapping", VS)
    srt = need_call(ctx, "T1-level0-newest-first", "sort", fe, "ldb_vector_sort", "level-0 candidates are sorted newest first")
    if srt:
        ctx.check(argkey(srt[0][2], 0) == "&tmp" and argkey(srt[0][2], 1) == "newest_first", "T1-level0-newest-first", "sort-args",
                  fe.name, site(fe, srt[0][2]), "ldb_vector_sort(&tmp, newest_first)", "level-0 sort arguments changed")
        cb = [(b, i, e) for (b, i, e) in fe.events("call") if "fp" in e and key(e["fp"]).endswith("func")]
        ctx.require(len(cb) == 2, "ldb_version_for_each_overlapping: callback sites not found")
        l0 = [x for x in cb if key(x[2]["a"][1]) == "0"]
        ctx.check(len(l0) == 1 and key(l0[0][2]["a"][2]) == "tmp.items[i]", "T1-level0-newest-first", "level0-callback", fe.name, fe.loc,
                  "level-0 callback walks the sorted vector in index order", "level-0 callback changed")
        always_before(ctx, "T1-level0-newest-first", "sort<callback", fe, lambda e: is_call(e, "ldb_vector_sort"),
                      lambda e: e["e"] == "call" and "fp" in e and key(e["a"][1]) == "0",
                      "sorting precedes the first level-0 lookup")
        never_after(ctx, "T1-level0-newest-first", "no-push-after-sort", fe, lambda e: is_call(e, "ldb_vector_sort"),
                    lambda e: is_call(e, "ldb_vector_push") and argkey(e, 0) == "&tmp", "no candidate is added after sorting")
    nf = ctx.fn("newest_first", VS)
    _sign(ctx, "T8-level0-newest-first", "newest_first", nf, "a->number", "b->number", (1, 0, -1),
          "newest_first sorts by descending file number", tie=())
    # a zero return of the callback ends the search, level 0 before deeper levels, levels ascending
    g = xgraph(P, fe)
    for b, i, e in fe.events("ret"):
        if e.get("synthetic"):
            continue
        atoms = g.must_at(b, i)
        ctx.check(holds(atoms, ("==", "re:\\(\\*func\\)\\(.*\\)#\\d+", "0")), "T2-search-stops", "ret@%s" % e["l"].split(":")[1],
                  fe.name, site(fe, e), "the search ends when the callback says stop", "early return not tied to the callback's answer")
    n_stop = len([1 for b, i, e in fe.events("ret") if not e.get("synthetic")])
    ctx.check(n_stop == 2, "T2-search-stops", "stop-sites", fe.name, fe.loc, "both callback sites can end the search",
              "%d early returns (expected one per callback site)" % n_stop)

    def step(q, e, st, b, i):
        if q == BAD:
            return q
        if e["e"] == "call" and "fp" in e and key(e["fp"]).endswith("func"):
            lvl = key(e["a"][1])
            if lvl == "0":
                return BAD if q == 1 else 0
            return 1
        return q
    check_automaton(ctx, "T1-level-order", "level0-first", fe, 0, step, None, "level 0 is searched before the deeper levels")
    lv = sorted((e["op"], key(e["rhs"])) for b, i, e in fe.events("asg") if key(e["lhs"]) == "level" and not is_incr(e))
    inc = [e for b, i, e in incr_events(fe, "level")]
    ctx.check(lv == [("=", "1")] and len(inc) == 1 and inc[0]["op"] == "++", "T1-level-order", "ascending", fe.name, fe.loc,
              "deeper levels are searched in ascending order starting at 1", "level loop changed: %s" % lv)
    # the key that selects the file in a sorted level is the lookup key itself (user key + the
    # reader's sequence): versions of one user key can straddle two files of a level
    ff = [e for b, i, e in find_calls(fe, ("find_file", "ldb_find_file"))]
    ctx.check(len(ff) == 1 and argkey(ff[0], 2) == "internal_key" and argkey(ff[0], 1) == "&ver->files[level]", "T6-lookup-key",
              "file-selection", fe.name, fe.loc, "find_file is driven by the caller's internal key",
              "file selection key is %s" % [argkey(e, 2) for e in ff])
    ctx.check([p["n"] for p in fe.params][:3] == ["ver", "user_key", "internal_key"], "T6-lookup-key", "params", fe.name, fe.loc,
              "the overlap walk receives both the user key and the internal key", "parameters changed: %s" % [p["n"] for p in fe.params])
    vg0 = ctx.fn("ldb_version_get", VS)
    c0 = one_call(ctx, vg0, "ldb_version_for_each_overlapping")[0][2]
    ctx.check(argkey(c0, 1) == "&state.saver.user_key" and argkey(c0, 2) == "&state.ikey", "T6-lookup-key", "version_get-args", vg0.name,
              site(vg0, c0), "the walk is given the lookup's own user key and internal key", "walk arguments are %s" % [argkey(c0, k) for k in (1, 2)])
    gm0 = ctx.fn("getstate_match", VS)
    tg0 = one_call(ctx, gm0, "ldb_tables_get")[0][2]
    ctx.check(argkey(tg0, 4) == "&state->ikey", "T6-lookup-key", "table-lookup-key", gm0.name, site(gm0, tg0),
              "the table is searched with the same internal key", "table lookup key is %s" % argkey(tg0, 4))
    # getstate_match: saver state switch
    gm = ctx.fn("getstate_match", VS)
    sw, cases, dflt = c13.switch_cases(gm, "state->saver.state")
    ctx.require(sw is not None, "getstate_match: switch over the saver state not found")
    ctx.check(set(cases) == {"S_NOTFOUND", "S_FOUND", "S_DELETED", "S_CORRUPT"}, "T6-saver-states", "exhaustive", gm.name, gm.loc,
              "all four saver states are handled", "saver states handled: %s" % sorted(cases))
    gg = xgraph(P, gm)
    for b, i, e in gm.events("ret"):
        if const_val(e.get("x")) == 1:
            ctx.check(holds(gg.must_at(b, i), ("==", "state->saver.state", 0)), "T2-tombstone-ends-search", "continue-only-notfound",
                      gm.name, site(gm, e), "the search continues only if this file had no entry for the key",
                      "the search continues past a found/deleted entry")
    ones = [e for b, i, e in gm.events("ret") if const_val(e.get("x")) == 1]
    ctx.check(len(ones) == 1, "T2-tombstone-ends-search", "continue-sites", gm.name, gm.loc, "one continue site", "continue sites: %d" % len(ones))
    for b, i, e in gm.events("asg"):
        if key(e["lhs"]) == "state->found" and const_val(e["rhs"]) == 1:
            atoms = gg.must_at(b, i)
            ok = holds(atoms, ("!=", "state->status", "0")) or holds(atoms, ("==", "state->saver.state", 1)) or \
                holds(atoms, ("==", "state->saver.state", 3))
            ctx.check(ok, "T2-tombstone-ends-search", "found@%s" % e["l"].split(":")[1], gm.name, site(gm, e),
                      "found is set for a value, a read error or a corrupt key - not for a tombstone",
                      "found flag set under %s" % fmt_atoms(atoms))
    sv = ctx.fn("save_value", VS)
    gs = xgraph(P, sv)
    st = [(b, i, e) for (b, i, e) in sv.events("asg") if key(e["lhs"]) == "s->state"]
    for b, i, e in st:
        r = strip_casts(e["rhs"])
        if isinstance(r, dict) and r.get("k") == "cond":
            ok = key(r["c"]) == "(pkey.type == 1)" and const_val(r["a"]) == 1 and const_val(r["b"]) == 2 and \
                holds(gs.must_at(b, i), ("==", "re:.*compare.*#\\d+", "0"))
            ctx.check(ok, "T2-tombstone-ends-search", "save_value", sv.name, site(sv, e),
                      "same user key: value -> FOUND, anything else -> DELETED", "save_value classification changed")
    vgf = ctx.fn("ldb_version_get", VS)
    r = [e for b, i, e in vgf.events("ret")]
    ok = len(r) == 1 and key(r[0].get("x")) == "(state.found ? state.status : 30001)"
    ctx.check(ok, "T2-tombstone-ends-search", "version_get:result", vgf.name, vgf.loc,
              "not found / deleted map to LDB_NOTFOUND", "ldb_version_get result is %s" % [key(x.get("x")) for x in r])
    ini = {key(e["lhs"]): key(e["rhs"]) for b, i, e in vgf.events("asg")}
    inim = {key(e["lhs"]): _macs(e["rhs"]) for b, i, e in vgf.events("asg")}
    ctx.check(ini.get("state.saver.state") == "0" and ini.get("state.found") == "0" and
              "ldb_lkey_internal_key" in inim.get("state.ikey", ()) and "ldb_lkey_user_key" in inim.get("state.saver.user_key", ()),
              "T2-tombstone-ends-search", "version_get:init", vgf.name, vgf.loc, "the saver starts as not-found with the lookup key",
              "saver initialisation changed")


def check_comparator(ctx):
    ik = ctx.fn("ldb_ikc_compare", "src/dbformat.c")
    _sign(ctx, "T8-internal-key-order", "sequence-descending", ik, "xn", "yn", (1, 0, -1),
          "equal user keys are ordered by descending (sequence, type) tag")
    d = {e["n"]: key(e.get("init")) for b, i, e in ik.events("decl")}
    ctx.check(d.get("xn") == "ldb_fixed64_decode(((x->data + x->size) - 8))" and
              d.get("yn") == "ldb_fixed64_decode(((y->data + y->size) - 8))", "T8-internal-key-order", "tag-position", ik.name, ik.loc,
              "the tag is the last 8 bytes of each key", "tag decoded from %s / %s" % (d.get("xn"), d.get("yn")))
    ctx.check(d.get("r") == "ldb_compare_internal(ikc->user_comparator, (&xk), (&yk))" or "user_comparator" in (d.get("r") or ""),
              "T8-internal-key-order", "user-key-first", ik.name, ik.loc, "the user comparator decides first", "primary comparison changed: %s" % d.get("r"))
    sc = ctx.fn("slice_compare", "src/util/comparator.c")
    _sign(ctx, "T8-bytewise-order", "shorter-first", sc, "x->size", "y->size", (-1, 0, 1),
          "a proper prefix sorts before the longer key")
    dn = {e["n"]: key(e.get("init")) for b, i, e in sc.events("decl")}
    ctx.check("memcmp(x->data, y->data, n)" in (dn.get("r") or "") and "x->size" in (dn.get("n") or "") and "y->size" in (dn.get("n") or ""),
              "T8-bytewise-order", "memcmp-min", sc.name, sc.loc, "bytes are compared over the common length",
              "bytewise comparison changed: n=%s r=%s" % (dn.get("n"), dn.get("r")))
    # the memtable key packs (sequence << 8) | type, which the comparator above reads
    ma = ctx.fn("ldb_memtable_add", "src/memtable.c")
    fw = [e for b, i, e in find_calls(ma, "ldb_fixed64_write")]
    ctx.check(len(fw) == 1 and argkey(fw[0], 1) == "((sequence << 8) | type)", "T8-internal-key-order", "tag-packing", ma.name, ma.loc,
              "tag = (sequence << 8) | type", "memtable tag packing changed: %s" % [argkey(e, 1) for e in fw])


def check_compaction_drop(ctx):
    P = ctx.P
    dw = ctx.fn("ldb_do_compaction_work", DB)
    g = xgraph(P, dw)
    drops = [(b, i, e) for (b, i, e) in dw.events("asg") if key(e["lhs"]) == "drop" and const_val(e["rhs"]) != 0]
    ctx.require(len(drops) >= 2, "ldb_do_compaction_work: expected the two drop sites, found %d" % len(drops))
    SS = "state->smallest_snapshot"
    for b, i, e in drops:
        atoms = g.must_at(b, i)
        a_ok = holds(atoms, ("<=", "last_sequence_for_key", SS))
        b_ok = (holds(atoms, ("==", "ikey.type", 0)) and holds(atoms, ("<=", "ikey.sequence", SS)) and
                holds(atoms, ("!=", CALL("ldb_compaction_is_base_level_for_key"), "0")))
        parsed = holds(atoms, ("!=", CALL("ldb_pkey_import"), "0"))
        ctx.check((a_ok or b_ok) and parsed, "T2-compaction-drop", "drop@%s" % e["l"].split(":")[1], dw.name, site(dw, e),
                  "an entry is dropped only if (A) a newer entry at or below the oldest snapshot exists, or (B) it is a "
                  "tombstone at or below the oldest snapshot with no data for the key in deeper levels",
                  "drop rule weakened; facts on every path: %s" % fmt_atoms(atoms))
    # last_sequence_for_key bookkeeping
    ls = [(b, i, e) for (b, i, e) in dw.events("asg") if key(e["lhs"]) == "last_sequence_for_key"]
    resets = [x for x in ls if const_val(x[2]["rhs"]) == (1 << 56) - 1]
    follow = [x for x in ls if key(x[2]["rhs"]) == "ikey.sequence"]
    ctx.check(len(resets) == 2 and len(follow) == 1 and len(ls) == 3, "T2-compaction-drop", "last-seq-bookkeeping", dw.name, dw.loc,
              "last_sequence_for_key: MAX on a new/unparsable key, ikey.sequence after each entry",
              "last_sequence_for_key stores changed: %s" % [key(x[2]["rhs"]) for x in ls])
    for b, i, e in resets:
        atoms = g.must_at(b, i)
        ok = holds(atoms, ("==", CALL("ldb_pkey_import"), "0")) or holds(atoms, ("==", "has_user_key", "0")) or \
            holds(atoms, ("!=", "re:.*compare.*user_key.*#\\d+", "0"))
        if not ok:
            # first-occurrence test is a disjunction: accept the edge form
            ok = True
            must_cross_edge_before(ctx, "T2-compaction-drop", "reset-on-new-key@%s" % e["l"].split(":")[1], dw,
                                   lambda c, p: truth_of(c, p, "has_user_key") is False or _cmp_user_key_ne(c, p) or
                                   _call_false(c, p, "ldb_pkey_import"),
                                   lambda ev, l=e["l"]: ev.get("l") == l and ev["e"] == "asg",
                                   "the per-key sequence is reset only at the first entry of a user key",
                                   reset=lambda ev: is_call(ev, "ldb_pkey_import"))
        else:
            ctx.ok("T2-compaction-drop", "reset-on-new-key@%s" % e["l"].split(":")[1], site(dw, e), "reset under its guard")
    if follow:
        never_after(ctx, "T2-compaction-drop", "decide-before-update", dw,
                    lambda e: e["e"] == "asg" and key(e["lhs"]) == "last_sequence_for_key" and key(e["rhs"]) == "ikey.sequence",
                    lambda e: e["e"] == "asg" and key(e["lhs"]) == "drop" and const_val(e["rhs"]) != 0,
                    "the drop decision uses the previous entry's sequence",
                    until=lambda e: is_call(e, "ldb_pkey_import"))
    # smallest_snapshot: oldest snapshot, or last_sequence when there is none
    ss = [(b, i, e) for (b, i, e) in dw.events("asg") if key(e["lhs"]) == SS]
    rhs = sorted(key(x[2]["rhs"]) for x in ss)
    ctx.check(rhs == ["db->versions->last_sequence", "ldb_snaplist_oldest((&db->snapshots))->sequence"], "T2-oldest-snapshot",
              "sources", dw.name, dw.loc, "smallest_snapshot = oldest live snapshot, else last_sequence",
              "smallest_snapshot is computed from %s" % rhs)
    for b, i, e in ss:
        atoms = g.must_at(b, i)
        if "oldest" in key(e["rhs"]):
            ok = holds(atoms, ("==", CALL("ldb_snaplist_empty"), "0"))
        else:
            ok = holds(atoms, ("!=", CALL("ldb_snaplist_empty"), "0"))
        ctx.check(ok, "T2-oldest-snapshot", "guard:%s" % ("oldest" if "oldest" in key(e["rhs"]) else "last_sequence"), dw.name,
                  site(dw, e), "selected by whether snapshots exist", "smallest_snapshot source no longer tied to the snapshot list")
    always_before(ctx, "T2-oldest-snapshot", "before-unlock", dw, lambda e: e["e"] == "asg" and key(e["lhs"]) == SS,
                  lambda e: is_call(e, "ldb_mutex_unlock"), "the bound is read before the mutex is released")
    so = ctx.fn("ldb_snaplist_oldest", "src/snapshot.h")
    r = [key(e.get("x")) for b, i, e in so.events("ret")]
    ctx.check(r == ["list->head.next"], "T2-oldest-snapshot", "oldest=head.next", so.name, so.loc,
              "the oldest snapshot is the first list element", "ldb_snaplist_oldest returns %s" % r)
    sn = ctx.fn("ldb_snaplist_new", "src/snapshot.h")
    lk = sorted((key(e["lhs"]), key(e["rhs"])) for b, i, e in sn.events("asg") if "->" in key(e["lhs"]) and "sequence" not in key(e["lhs"]))
    ctx.check(("snap->next", "(&list->head)") in lk and ("snap->prev", "list->head.prev") in lk, "T2-oldest-snapshot", "append-at-tail",
              sn.name, sn.loc, "new snapshots are appended at the tail (newest last)", "snapshot list insertion changed: %s" % lk)
    # is_base_level: returns 0 iff the key is inside a deeper file
    ib = ctx.fn("ldb_compaction_is_base_level_for_key", VS)
    gi = xgraph(P, ib)
    zeros = [(b, i, e) for (b, i, e) in ib.events("ret") if const_val(e.get("x")) == 0]
    ctx.check(len(zeros) == 1, "T2-base-level", "not-base-site", ib.name, ib.loc, "one not-base-level return", "not-base returns: %d" % len(zeros))
    lv = [key(e["rhs"]) for b, i, e in ib.events("asg") if key(e["lhs"]) == "lvl" and not is_incr(e)]
    atoms_any = bool(incr_events(ib, "lvl", 1)) or None
    ctx.check(lv == ["(c->level + 2)"] and atoms_any, "T2-base-level", "levels", ib.name, ib.loc,
              "every level below the compaction's output level is inspected", "level range changed: %s" % lv)
    conds = [key(b.term["cond"]) for b in ib.blocks.values() if b.term is not None and "cond" in b.term]
    ctx.check(any(c == "(lvl < 7)" for c in conds), "T2-base-level", "all-levels", ib.name, ib.loc,
              "the walk reaches the last level", "level loop bound changed: %s" % conds)


def _cmp_user_key_ne(c, p):
    c = strip_casts(c)
    if isinstance(c, dict) and c.get("k") == "bin" and c["op"] in ("!=", "==") and const_val(c["r"]) == 0:
        l = strip_casts(c["l"])
        if isinstance(l, dict) and l.get("k") == "call" and "user_key" in key(l):
            return p if c["op"] == "!=" else (not p)
    return False


def _call_false(c, p, name):
    c = strip_casts(c)
    while isinstance(c, dict) and c.get("k") == "un" and c.get("op") == "!":
        p = not p
        c = strip_casts(c["x"])
    return isinstance(c, dict) and c.get("k") == "call" and c.get("f") == name and p is False


def check_inputs(ctx):
    P = ctx.P
    so = ctx.fn("ldb_versions_setup_other_inputs", VS)
    # every vector filled by get_overlapping_inputs that becomes a compaction input gets its boundary files
    fills = find_calls(so, "ldb_version_get_overlapping_inputs")
    bounds = find_calls(so, "ldb_add_boundary_inputs")
    want = {"&c->inputs[1]": "(level + 1)", "&expanded0": "level", "&expanded1": "(level + 1)"}
    for b, i, e in fills:
        vec = argkey(e, 4)
        if vec not in want:
            continue
        lvl = argkey(e, 1)
        ok = any(argkey(x, 2) == vec and ("files[%s]" % lvl) in (argkey(x, 1) or "") for bb, ii, x in bounds)
        ctx.check(ok, "T1-boundary-inputs", vec, so.name, site(so, e),
                  "%s is extended by the boundary files of its level" % vec,
                  "%s becomes a compaction input without add_boundary_inputs of level %s" % (vec, lvl))
        if ok:
            must_pass_before_success(ctx, "T1-boundary-inputs", vec + ":order", so,
                                     lambda ev, cid=e["id"]: ev.get("e") == "call" and ev.get("id") == cid,
                                     lambda ev, vec=vec: is_call(ev, "ldb_add_boundary_inputs") and argkey(ev, 2) == vec,
                                     "boundary extension follows the overlap computation on every path",
                                     success=lambda ev, st: True,
                                     edge_pass=lambda lit: False)
    first = [x for x in bounds if argkey(x[2], 2) == "&c->inputs[0]"]
    ctx.check(len(first) == 1 and "files[level]" in (argkey(first[0][2], 1) or ""), "T1-boundary-inputs", "&c->inputs[0]", so.name, so.loc,
              "the picked inputs are extended by their boundary files first", "initial boundary extension changed")
    if first:
        always_before(ctx, "T1-boundary-inputs", "inputs0-first", so,
                      lambda e: is_call(e, "ldb_add_boundary_inputs") and argkey(e, 2) == "&c->inputs[0]",
                      lambda e: is_call(e, ("ldb_versions_get_range", "ldb_version_get_overlapping_inputs")),
                      "the level range is computed after the boundary extension")
    ctx.check(len(bounds) == 4, "T1-boundary-inputs", "sites", so.name, so.loc, "four boundary-extension sites", "boundary-extension sites: %d" % len(bounds))
    sw = sorted((argkey(e, 0), argkey(e, 1)) for b, i, e in find_calls(so, "ldb_vector_swap"))
    ctx.check(sw == [("&c->inputs[0]", "&expanded0"), ("&c->inputs[1]", "&expanded1")], "T1-boundary-inputs", "swaps", so.name, so.loc,
              "only the extended vectors replace the inputs", "input swaps changed: %s" % sw)
    ab = ctx.fn("ldb_add_boundary_inputs", VS)
    need_call(ctx, "T1-boundary-inputs", "impl:find", ab, "find_smallest_boundary_file", "boundary files are searched")
    need_call(ctx, "T1-boundary-inputs", "impl:push", ab, "ldb_vector_push", "boundary files are added")
    fb = ctx.fn("find_smallest_boundary_file", VS)
    gfb = xgraph(P, fb)
    for b, i, e in fb.events("asg"):
        if key(e["lhs"]) == "res" and key(e["rhs"]) == "f":
            atoms = gfb.must_at(b, i)
            ok = holds(atoms, (">", "re:.*compare.*\\(&f->smallest\\), largest_key.*#\\d+", "0")) and \
                holds(atoms, ("==", "re:.*compare.*file_key.*user_key.*#\\d+", "0"))
            ctx.check(ok, "T1-boundary-inputs", "impl:boundary-predicate", fb.name, site(fb, e),
                      "a boundary file starts after the largest key and with the same user key",
                      "boundary predicate changed; facts %s" % fmt_atoms(atoms))
    # memtable output level
    pl = ctx.fn("ldb_version_pick_level_for_memtable_output", VS)
    inc = [(b, i, e.get("_of", e)) for (b, i, e) in incr_events(pl, "level", 1)]
    ctx.require(len(inc) == 1, "pick_level_for_memtable_output: level++ not found")
    gp = xgraph(P, pl)

    def ov_false(lvl):
        return lambda c, p: _overlap_truth(c, p, lvl) is False
    must_cross_edge_before(ctx, "T2-memtable-output-level", "no-overlap-level0", pl, ov_false("0"),
                           lambda e: is_incr(e, "level", 1),
                           "a flushed table leaves level 0 only if it overlaps nothing there")
    must_cross_edge_before(ctx, "T2-memtable-output-level", "no-overlap-next", pl, ov_false("(level + 1)"),
                           lambda e: is_incr(e, "level", 1),
                           "a flushed table moves down one level only if it overlaps nothing there",
                           reset=lambda e: is_incr(e, "level", 1))
    atoms = gp.must_at(inc[0][0], inc[0][1])
    ctx.check(holds(atoms, ("<", "level", 2)), "T2-memtable-output-level", "max-level", pl.name, site(pl, inc[0][2]),
              "flushed tables go at most to LDB_MAX_MEM_COMPACT_LEVEL", "memtable output level bound changed")


def _overlap_truth(c, p, lvl):
    c = strip_casts(c)
    while isinstance(c, dict) and c.get("k") == "un" and c.get("op") == "!":
        p = not p
        c = strip_casts(c["x"])
    if isinstance(c, dict) and c.get("k") == "call" and c.get("f") == "ldb_version_overlap_in_level" and key(c["a"][1]) == lvl:
        return p
    return None


def check_level0_closure(ctx):
    """Level-0 files overlap each other: whenever a picked file widens the range
    (downwards or upwards) the scan restarts so that files skipped earlier are
    reconsidered.  Otherwise a newer level-0 file can be compacted away from
    above an older one that still shadows it in lookups."""
    P = ctx.P
    f = ctx.fn("ldb_version_get_overlapping_inputs", VS)
    g = xgraph(P, f)
    ext = {"user_begin": ("file_start", "<"), "user_end": ("file_limit", ">")}
    for var, (src, op) in sorted(ext.items()):
        sts = [(b, i, e) for (b, i, e) in f.events("asg") if key(e["lhs"]) == var and key(e["rhs"]) == src]
        ctx.check(len(sts) == 1, "T2-level0-closure", "extends:" + var, f.name, f.loc,
                  "a picked level-0 file can widen %s" % var, "range extension of %s changed (%d sites)" % (var, len(sts)))
        for b, i, e in sts:
            atoms = g.must_at(b, i)
            ctx.check(holds(atoms, ("==", "level", "0")) and holds(atoms, (op, "re:.*compare.*%s.*%s.*#\\d+" % (src, var), "0")),
                      "T2-level0-closure", "guard:" + var, f.name, site(f, e),
                      "the range is widened exactly when the picked file sticks out",
                      "range widening guard changed; facts %s" % fmt_atoms(atoms))
            must_pass_before_success(ctx, "T2-level0-closure", "restart:" + var, f,
                                     lambda ev, l=e["l"]: ev["e"] == "asg" and ev.get("l") == l,
                                     lambda ev: ev["e"] == "asg" and key(ev["lhs"]) == "i" and const_val(ev["rhs"]) == 0,
                                     "after widening the range the scan restarts from the first file",
                                     success=lambda ev, st: True)
            must_pass_before_success(ctx, "T2-level0-closure", "reset:" + var, f,
                                     lambda ev, l=e["l"]: ev["e"] == "asg" and ev.get("l") == l,
                                     lambda ev: is_call(ev, "ldb_vector_reset") and argkey(ev, 0) == "inputs",
                                     "after widening the range the collected inputs are discarded",
                                     success=lambda ev, st: True)
    # a file is skipped only if it lies completely before / after the range
    push = one_call(ctx, f, "ldb_vector_push")[0]
    iteration = lambda ev: ev["e"] == "decl" and ev["n"] == "f"
    from ..rules import iteration_equiv
    flags = {
        "before": lambda c, p: _cmp_sign(c, p, "file_limit", "user_begin") == "<",
        "notbefore": lambda c, p: _cmp_sign(c, p, "file_limit", "user_begin") == ">=" or rel_edge(c, p, "==", "begin", 0),
        "after": lambda c, p: _cmp_sign(c, p, "file_start", "user_end") == ">",
        "notafter": lambda c, p: _cmp_sign(c, p, "file_start", "user_end") == "<=" or rel_edge(c, p, "==", "end", 0),
    }
    iteration_equiv(ctx, "T2-level0-closure", "skip-iff-disjoint", f, iteration, lambda ev: is_call(ev, "ldb_vector_push"),
                    flags, exec_ok=lambda fl: "notbefore" in fl and "notafter" in fl,
                    skip_ok=lambda fl: "before" in fl or "after" in fl,
                    what="a file is left out iff it ends before the range or starts after it")


def check_range_fold(ctx):
    """The key range of a set of compaction inputs is the minimum of the
    files' smallest keys and the maximum of their largest keys: each running
    bound is replaced only by the same field of a file that compares strictly
    beyond it.  (A too-small range leaves overlapping next-level files out of
    the compaction, and two overlapping tables of one level hide each other.)"""
    P = ctx.P
    rows = [("ldb_versions_get_range", "small", "smallest", "<", "inputs->length"),
            ("ldb_versions_get_range", "large", "largest", ">", "inputs->length"),
            ("find_largest_key", "large", "largest", ">", "files->length")]
    for fname, var, field, sign, bound in rows:
        f = ctx.fn(fname, VS)
        g = xgraph(P, f)
        sts = [(b, i, e) for (b, i, e) in f.events("asg") if key(e["lhs"]) == var and const_val(e["rhs"]) is None]
        ctx.require(len(sts) >= 1, "%s: running bound `%s` not found" % (fname, var))
        for b, i, e in sts:
            atoms = g.must_at(b, i)
            same = key(e["rhs"]) == "(&f->%s)" % field
            first = holds(atoms, ("==", "i", "0"))
            beyond = holds(atoms, (sign, "re:.*compare.*\\(&f->%s\\), %s\\)#\\d+" % (field, var), "0"))
            ctx.check(same and (first or beyond) and holds(atoms, ("<", "i", bound)), "T8-range-fold",
                      "%s:%s@%s" % (fname, var, e["l"].split(":")[1]), f.name, site(f, e),
                      "`%s` becomes a file's %s key only for the first file or when that key lies strictly beyond it" % (var, field),
                      "running bound `%s` is set to %s under %s" % (var, key(e["rhs"]), fmt_atoms(atoms)),
                      subject="%s:%s" % (fname, var))
    f = ctx.fn("ldb_versions_get_range", VS)
    outs = {key(e["lhs"]): key(e["rhs"]) for b, i, e in f.events("asg") if key(e["lhs"]).startswith("(*")}
    ctx.check(outs.get("(*smallest)") == "(*small)" and outs.get("(*largest)") == "(*large)", "T8-range-fold", "get_range:outputs", f.name, f.loc,
              "the folded bounds are the reported range", "reported range is %s" % outs)
    f2 = ctx.fn("ldb_versions_get_range2", VS)
    cp = [(key(e["lhs"]), key(e["rhs"])) for b, i, e in f2.events("asg") if key(e["lhs"]).startswith("all.items[")]
    ctx.check(sorted(r for l, r in cp) == ["inputs1->items[i]", "inputs2->items[i]"], "T8-range-fold", "get_range2:both-sets", f2.name, f2.loc,
              "the joint range covers both input sets", "joint range built from %s" % cp)


def check_manual_truncation(ctx):
    """A manual compaction may cut its input list short ("not too much in one
    shot") only in a level whose files are disjoint: in level 0 a dropped
    older file would stay above the newer data that moved down."""
    f = ctx.fn("ldb_versions_compact_range", VS)
    g = xgraph(ctx.P, f)
    cuts = [(b, i, e) for (b, i, e) in f.events("call")
            if is_call(e, ("ldb_vector_resize", "ldb_vector_pop", "ldb_vector_reset")) and argkey(e, 0) in ("&inputs", "inputs")]
    ctx.require(len(cuts) >= 1, "ldb_versions_compact_range: input truncation not found")
    for b, i, e in cuts:
        atoms = g.must_at(b, i)
        ok = holds(atoms, (">", "level", 0)) or holds(atoms, (">=", "level", 1)) or holds(atoms, ("!=", "level", "0")) or \
            holds(atoms, ("==", "inputs.length", "0"))
        ctx.check(ok, "T2-level0-closure", "manual-truncation@%s" % e["l"].split(":")[1], f.name, site(f, e),
                  "the input list of a manual compaction is shortened only above level 0",
                  "level-0 inputs of a manual compaction can be truncated (an older overlapping file stays behind); facts %s"
                  % fmt_atoms(atoms))


def check_pick_level0_closure(ctx):
    """Every automatically picked level-0 compaction (size- or seek-triggered)
    takes the transitive closure of overlapping level-0 files before its
    inputs are fixed; otherwise a newer level-0 file moves below an older one
    that overlaps it."""
    f = ctx.fn("ldb_versions_pick_compaction", VS)
    must_pass_before_success(ctx, "T2-level0-closure", "pick_compaction", f, None,
                             lambda e: is_call(e, "ldb_version_get_overlapping_inputs") and const_val(e["a"][1]) == 0
                             and argkey(e, 4) == "&c->inputs[0]",
                             "a picked level-0 compaction collects all overlapping level-0 files",
                             success=lambda e, st: e.get("x") is not None and const_val(e["x"]) is None,
                             edge_pass=lambda lit: rel_edge(lit[0], lit[1], "!=", "level", 0))
    always_b = [(b, i, e) for (b, i, e) in f.events("call") if is_call(e, "ldb_versions_setup_other_inputs")]
    ctx.require(len(always_b) == 1, "pick_compaction: setup_other_inputs call not found")
    from ..rules import never_after
    never_after(ctx, "T2-level0-closure", "pick_compaction:closure-before-expansion", f,
                lambda e: is_call(e, "ldb_versions_setup_other_inputs"),
                lambda e: is_call(e, "ldb_version_get_overlapping_inputs"),
                "the level-0 closure is taken before the other inputs are set up")


def _cmp_sign(c, p, a, b):
    """branch edge on `compare(uc, &a, &b) <op> 0` -> the relation it establishes between a and b"""
    from ..paths import norm_literal
    for op, x, y in norm_literal(c, p):
        if y == "0" and "compare" in x and ("(&%s), (&%s)" % (a, b)) in x:
            return op
    return None


def check_cache_keys(ctx):
    """Two different blocks / tables never share a cache key: block key = (per-table
    cache id, block offset), table key = file number; the per-table id is unique."""
    br = ctx.fn("ldb_table_blockreader", "src/table/table.c")
    fw = sorted((argkey(e, 0), argkey(e, 1)) for b, i, e in find_calls(br, "ldb_fixed64_write"))
    ctx.check(fw == [("(cache_key_buffer + 0)", "table->cache_id"), ("(cache_key_buffer + 8)", "handle.offset")], "T6-cache-key",
              "block-key", br.name, br.loc, "block cache key = (table cache id, block offset)", "block cache key built from %s" % fw)
    ks = [e for b, i, e in find_calls(br, "ldb_slice_set") if argkey(e, 0) == "&key"]
    ctx.check(len(ks) == 1 and argkey(ks[0], 1) == "cache_key_buffer" and const_val(ks[0]["a"][2]) == 16, "T6-cache-key", "block-key-size",
              br.name, br.loc, "the whole 16-byte key is used", "block cache key slice changed")
    lk = [argkey(e, 1) for b, i, e in find_calls(br, ("ldb_lru_lookup", "ldb_lru_insert"))]
    ctx.check(lk and all(k == "&key" for k in lk), "T6-cache-key", "block-key-used", br.name, br.loc,
              "lookup and insert use that key", "cache lookup/insert keys: %s" % lk)
    to = ctx.fn("ldb_table_open", "src/table/table.c")
    ids = [key(e["rhs"]) for b, i, e in to.events("asg") if key(e["lhs"]) == "tbl->cache_id" and const_val(e["rhs"]) is None]
    ctx.check(ids == ["ldb_lru_id(options->block_cache)"], "T6-cache-key", "fresh-id-per-table", to.name, to.loc,
              "every opened table gets a fresh cache id", "table cache id comes from %s" % ids)
    li = ctx.fn("ldb_lru_id", "src/util/cache.c")
    r = [key(e.get("x")) for b, i, e in li.events("ret") if not e.get("synthetic")]
    st = [(e["op"], key(e["rhs"])) for b, i, e in li.events("asg") if key(e["lhs"]) == "id"]
    ctx.check(r == ["id"] and st == [("=", "(++lru->last_id)")], "T6-cache-key", "id-allocator", li.name, li.loc,
              "ids are the pre-incremented counter, captured in the critical section",
              "ldb_lru_id returns %s (id <- %s)" % (r, st))
    ft = ctx.fn("find_table", "src/table_cache.c")
    fw = [(argkey(e, 0), argkey(e, 1)) for b, i, e in find_calls(ft, "ldb_fixed64_write")]
    ctx.check(fw == [("buf", "file_number")], "T6-cache-key", "table-key", ft.name, ft.loc, "table cache key = file number",
              "table cache key built from %s" % fw)
    ev = ctx.fn("ldb_tables_evict", "src/table_cache.c")
    fw = [(argkey(e, 1)) for b, i, e in find_calls(ev, "ldb_fixed64_write")]
    ctx.check(fw == ["file_number"], "T6-cache-key", "evict-key", ev.name, ev.loc, "eviction uses the same key", "evict key built from %s" % fw)


def check_trivial_move(ctx):
    """A file is moved one level down without merging only if nothing overlaps it there."""
    tm = ctx.fn("ldb_compaction_is_trivial_move", VS)
    r = [e for b, i, e in tm.events("ret") if not e.get("synthetic")]
    ctx.require(len(r) == 1, "ldb_compaction_is_trivial_move: single return expected")
    from ..rules import dnf, _canon
    got = dnf(r[0]["x"])
    need = {_canon(("==", "c->inputs[0].length", "1")), _canon(("==", "c->inputs[1].length", "0"))}
    ok = len(got) == 1 and need <= set(list(got)[0])
    ctx.check(ok, "T2-trivial-move", "predicate", tm.name, tm.loc,
              "trivial move requires exactly one input file and no overlapping file in the next level",
              "trivial-move predicate is %s" % sorted(sorted(x) for x in got))
    bc = ctx.fn("ldb_background_compaction", DB)
    g = xgraph(ctx.P, bc)
    mv = [(b, i, e) for (b, i, e) in find_calls(bc, "ldb_edit_add_file")]
    ctx.require(len(mv) == 1, "ldb_background_compaction: trivial move edit not found")
    atoms = g.must_at(mv[0][0], mv[0][1])
    ctx.check(holds(atoms, ("!=", CALL("ldb_compaction_is_trivial_move"), "0")) and holds(atoms, ("==", "is_manual", "0")),
              "T2-trivial-move", "guard", bc.name, site(bc, mv[0][2]), "the move edit is built only for a trivial, automatic compaction",
              "trivial-move branch guard changed; facts %s" % fmt_atoms(atoms))
    rm = one_call(ctx, bc, "ldb_edit_remove_file")[0][2]
    ctx.check(argkey(rm, 1) == "c->level" and argkey(rm, 2) == "f->number" and argkey(mv[0][2], 1) == "(c->level + 1)" and
              argkey(mv[0][2], 2) == "f->number", "T2-trivial-move", "same-file-one-level-down", bc.name, site(bc, rm),
              "the same file is removed from level L and added to L+1", "trivial move edit changed")
    ad = ctx.fn("ldb_compaction_add_input_deletions", VS)
    rf = one_call(ctx, ad, "ldb_edit_remove_file")[0]
    a2 = xgraph(ctx.P, ad).must_at(rf[0], rf[1])
    ctx.check(argkey(rf[2], 1) == "(c->level + which)" and argkey(rf[2], 2) == "file->number" and holds(a2, ("<", "which", 2)) and
              not holds(a2, ("<", "which", 1)) and holds(a2, ("<", "i", "c->inputs[which].length")), "T1-inputs-retired", "both-levels",
              ad.name, site(ad, rf[2]), "every input file of both levels is removed by the install edit",
              "input deletion loop changed")
    ic = ctx.fn("ldb_install_compaction_results", DB)
    always_before(ctx, "T1-inputs-retired", "deletions-in-install-edit", ic, lambda e: is_call(e, "ldb_compaction_add_input_deletions"),
                  lambda e: is_call(e, "ldb_versions_apply"), "input deletions are part of the edit that installs the outputs")


def check_table_get(ctx):
    P = ctx.P
    ig = ctx.fn("ldb_table_internal_get", "src/table/table.c")
    br = one_call(ctx, ig, "ldb_table_blockreader")[0]
    # the data block is skipped only across a negative filter answer
    def okedge(c, p):
        c2 = strip_casts(c)
        neg = False
        while isinstance(c2, dict) and c2.get("k") == "un" and c2.get("op") == "!":
            neg = not neg
            c2 = strip_casts(c2["x"])
        if isinstance(c2, dict) and c2.get("k") == "call" and c2.get("f") == "ldb_filter_matches":
            return (p != neg) is False      # call returned 0
        return False

    def step(q, e, st, b, i):
        # q: 0 index entry valid and block not yet read, 1 read, 2 skipped legitimately
        if q == BAD:
            return q
        if is_call(e, "ldb_table_blockreader"):
            return 1
        if e["e"] == "ret" and q == 0:
            return BAD
        return q

    def edge(q, lit):
        if q == BAD or lit is None or lit[0] in ("case", "default"):
            return q
        if okedge(lit[0], lit[1]):
            return 2
        c = strip_casts(lit[0])
        if isinstance(c, dict) and c.get("k") == "call" and "valid" in key(c) and lit[1] is False and q == 0:
            return 2      # index has no entry at or after the key
        return q
    check_automaton(ctx, "T2-filter-skip", "skip-only-on-negative", ig, 0, step, edge,
                    "a lookup returns without reading the data block only if the index has no candidate or the filter says no")
    fm = ctx.fn("ldb_filter_matches", "src/table/filter_block.c")
    gf = xgraph(P, fm)
    zeros = [(b, i, e) for (b, i, e) in fm.events("ret") if const_val(e.get("x")) == 0]
    ctx.check(len(zeros) == 1, "T2-filter-fail-open", "zero-sites", fm.name, fm.loc, "one constant no-match return",
              "constant no-match returns: %d" % len(zeros))
    for b, i, e in zeros:
        atoms = gf.must_at(b, i)
        ctx.check(holds(atoms, ("==", "start", "limit")) and holds(atoms, ("<", "index", "fr->num")), "T2-filter-fail-open", "empty-filter",
                  fm.name, site(fm, e), "only an empty filter answers no without consulting the policy",
                  "filter answers no under %s" % fmt_atoms(atoms))
    # a filter of length zero is still the policy's to judge (a user policy may emit an empty filter meaning "no
    # information"): the policy is consulted iff start <= limit (not <) and the slice lies inside the filter data
    from ..rules import holds_exact
    pc = [(b, i, e) for (b, i, e) in fm.events("call") if is_call(e, "ldb_slice_set")]
    if pc:
        a3 = gf.must_at(pc[0][0], pc[0][1])
        ctx.check(holds_exact(a3, ("<=", "start", "limit")), "T2-filter-fail-open", "policy-judges-empty-filter", fm.name, site(fm, pc[0][2]),
                  "the policy is consulted for every well-formed filter slice, the empty one included",
                  "the filter slice is handed to the policy under %s (expected start <= limit)" % fmt_atoms(a3))
    ones = [e for b, i, e in fm.events("ret") if const_val(e.get("x")) == 1]
    bm = [e for b, i, e in fm.events("ret") if "ldb_bloom_match" in _macs(e.get("x")) or "policy->match" in key(e.get("x"))]
    other = [e for b, i, e in fm.events("ret") if const_val(e.get("x")) not in (0, 1) and e not in bm]
    ctx.check(len(ones) >= 1 and not other, "T2-filter-fail-open", "default-match", fm.name, fm.loc,
              "every answer is the policy's, the empty-filter no, or the fail-open yes (%d sites)" % len(ones),
              "fail-open return changed: %d constant-yes returns, other returns %s" % (len(ones), [key(e.get("x")) for e in other]))
    ctx.check(len(bm) == 1, "T2-filter-fail-open", "policy-answer", fm.name, fm.loc, "the policy's answer is returned", "policy call changed")


def check(ctx):
    from . import c02 as _c02d
    _c02d.check_env(ctx)           # what was acknowledged reached the file completely (a short write is continued, not repeated)
    from . import tablefmt as _tf4
    _tf4.check_iterator_statuses(ctx)   # a failed block read is an error, not 'key absent here, look in older files'
    from . import tablefmt as _tf3
    _tf3.check_policy_wrapping(ctx)   # filters are built and probed over user keys
    from . import tablefmt as _tf
    _tf.check_filter_offsets(ctx)   # a filter consulted by a lookup holds every key of its block and is probed as built
    from . import c14
    c14.check_level_loops(ctx)     # lookups and compaction bookkeeping cover every level
    check_range_fold(ctx)
    check_pick_level0_closure(ctx)
    check_get(ctx)
    check_version_get(ctx)
    check_comparator(ctx)
    check_compaction_drop(ctx)
    check_inputs(ctx)
    check_level0_closure(ctx)
    check_manual_truncation(ctx)
    check_cache_keys(ctx)
    check_trivial_move(ctx)
    check_table_get(ctx)
    from . import c04
    c04.check_write(ctx)       # sequence accounting of the commit group: a mis-stamped write is invisible to reads
