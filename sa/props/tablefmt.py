"""Shared table-file rules (C11, C16, C18): block trailer, footer, checksum guard."""
from ..paths import xgraph
from ..program import const_val, key, strip_casts
from ..rules import (always_before, argkey, check_guard, find_calls, fmt_atoms, holds, is_call, must_cross_edge_before,
                     need_call, one_call, rel_edge, site, truth_of, CALL)
from .wal import expand

FMT = "src/table/format.c"
TB = "src/table/table_builder.c"
SIZE_MAX = (1 << 64) - 1


def _pos(e):
    p = e.get("l", "x:0:0").split(":")
    return (int(p[1]), int(p[2]))


def check_read_block(ctx):
    P = ctx.P
    f = ctx.fn("ldb_read_block", FMT)
    g = xgraph(P, f)
    # (a) size overflow and short read before any byte is looked at
    pr = one_call(ctx, f, "ldb_rfile_pread")[0]
    atoms = g.must_at(pr[0], pr[1])
    ctx.check(holds(atoms, ("<=", "handle->size", SIZE_MAX - 5)), "T2-block-size-overflow", "pread", f.name, site(f, pr[2]),
              "n + trailer cannot overflow before the read", "block read without the size-overflow guard")
    ctx.check(argkey(pr[2], 3) == "len" and argkey(pr[2], 4) == "handle->offset", "T2-block-size-overflow", "pread-args", f.name,
              site(f, pr[2]), "reads n + 5 bytes at the handle's offset", "pread arguments changed")
    ln = [key(e["rhs"]) for b, i, e in f.events("asg") if key(e["lhs"]) == "len"]
    nn = [key(e["rhs"]) for b, i, e in f.events("asg") if key(e["lhs"]) == "n"]
    ctx.check(ln == ["(n + 5)"] and nn == ["handle->size"], "T6-block-trailer", "reader:len", f.name, f.loc, "len = n + LDB_TRAILER_SIZE",
              "block length computed as %s / %s" % (nn, ln))
    uses = [(b, i, e) for (b, i, e) in f.events("idx") if key(e["b"]) == "data"] + \
        [(b, i, e) for (b, i, e) in f.events("call")
         if is_call(e, ("ldb_crc32c_extend", "ldb_crc32c_value", "ldb_fixed32_decode", "snappy_decode", "snappy_decode_size",
                        "ldb_snappy_decode", "ldb_snappy_decode_size"))]
    ctx.require(len(uses) >= 4, "ldb_read_block: uses of the block bytes not found")
    for b, i, e in uses:
        a2 = g.must_at(b, i)
        ctx.check(holds(a2, ("==", "contents.size", "len")) and holds(a2, ("==", "rc", "0")), "T2-block-short-read",
                  "use@%s" % e["l"].split(":")[1], f.name, site(f, e), "block bytes are used only after a complete, successful read",
                  "block bytes used without the short-read / status guard; facts %s" % fmt_atoms(a2))
    # (b) checksum guard: the type byte is interpreted only across verify==0 or crc==actual
    must_cross_edge_before(ctx, "T2-block-checksum", "type-switch", f,
                           lambda c, p: truth_of(c, p, "options->verify_checksums") is False or rel_edge(c, p, "==", "crc", "actual"),
                           lambda e: e["e"] == "idx" and key(e["b"]) == "data" and key(e["i"]) == "n" and e["mode"] == "r",
                           "with verify_checksums the block type and contents are used only after the CRC matched")
    from ..rules import returned_after
    mv = returned_after(ctx, f, arm_edge=lambda lit: lit[0] not in ("case", "default") and rel_edge(lit[0], lit[1], "!=", "crc", "actual"))
    ctx.check(mv == {30002}, "T2-block-checksum", "mismatch-is-corruption", f.name, f.loc,
              "a CRC mismatch returns LDB_CORRUPTION on every path", "a CRC mismatch returns %s" % sorted(map(str, mv)))
    d = {e["n"]: key(e.get("init")) for b, i, e in f.events("decl")}
    ctx.check(d.get("crc") == "ldb_crc32c_unmask(ldb_fixed32_decode(((data + n) + 1)))", "T6-block-trailer", "reader:crc-position", f.name, f.loc,
              "stored CRC is the masked fixed32 at data + n + 1", "stored CRC read as %s" % d.get("crc"))
    ctx.check(d.get("actual") in ("ldb_crc32c_extend(0, data, (n + 1))", "ldb_crc32c_value(data, (n + 1))"), "T6-block-trailer",
              "reader:crc-coverage", f.name, f.loc, "CRC covers contents + type byte (n + 1 bytes)", "CRC computed as %s" % d.get("actual"))
    # (c) block type: none and snappy can succeed, every other value is LDB_CORRUPTION on every path
    # (specialised per value of the type byte: holds for a switch and for an if-chain alike)
    from ..rules import returned_after
    ctx.require(any(e["e"] == "idx" and key(e["b"]) == "data" and key(e["i"]) == "n" for b2, i2, e in f.events("idx")),
                "ldb_read_block: read of the block type byte data[n] not found")
    for name, val in (("LDB_NO_COMPRESSION", 0), ("LDB_SNAPPY_COMPRESSION", 1)):
        vals = returned_after(ctx, f, assume=("data[n]", val))
        ctx.check(0 in vals, "T6-block-trailer", "reader:type-switch:" + name, f.name, f.loc,
                  "a block of type %s can be read" % name, "a block of type %s can only return %s" % (name, sorted(map(str, vals))))
    for val in (2, 255):
        vals = returned_after(ctx, f, assume=("data[n]", val), arm_event=lambda e: e["e"] == "idx" and key(e["b"]) == "data" and key(e["i"]) == "n")
        ctx.check(vals == {30002}, "T6-block-trailer", "reader:unknown-type", f.name, f.loc,
                  "an unknown block type (%d) is LDB_CORRUPTION on every path" % val,
                  "an unknown block type (%d) returns %s" % (val, sorted(map(str, vals))), subject="reader:unknown-type")
    # (d) snappy: size, allocation and decode in order, each checked
    ds = need_call(ctx, "T2-block-snappy", "decode_size", f, ("snappy_decode_size", "ldb_snappy_decode_size"), "the uncompressed size is validated")
    dc = need_call(ctx, "T2-block-snappy", "decode", f, ("snappy_decode", "ldb_snappy_decode"), "the block is decompressed")
    if ds and dc:
        a2 = g.must_at(dc[0][0], dc[0][1])
        ctx.check(holds(a2, ("!=", CALL("ldb_snappy_decode_size"), "0")) and holds(a2, ("!=", "ubuf", "0")),
                  "T2-block-snappy", "decode-guards", f.name, site(f, dc[0][2]), "decode runs after a valid size and a successful allocation",
                  "snappy decode guards changed; facts %s" % fmt_atoms(a2))
        for b, i, e in find_calls(f, "ldb_slice_set"):
            if argkey(e, 1) == "ubuf":
                a3 = g.must_at(b, i)
                ctx.check(holds(a3, ("!=", CALL("ldb_snappy_decode"), "0")), "T2-block-snappy", "result-after-decode-ok", f.name, site(f, e),
                          "the uncompressed buffer is handed out only after a successful decode", "uncompressed data used after a failed decode")


def check_write_block(ctx):
    f = ctx.fn("ldb_tablegen_write_raw_block", TB)
    apps = find_calls(f, "ldb_wfile_append")
    ctx.check(len(apps) == 2 and argkey(apps[0][2], 1) in ("block_contents", "&trail") and
              sorted(argkey(e, 1) for b, i, e in apps) == ["&trail", "block_contents"], "T6-block-trailer", "writer:appends", f.name, f.loc,
              "contents then 5-byte trailer are appended", "block append sequence changed")
    always_before(ctx, "T6-block-trailer", "writer:order", f, lambda e: is_call(e, "ldb_wfile_append") and argkey(e, 1) == "block_contents",
                  lambda e: is_call(e, "ldb_wfile_append") and argkey(e, 1) == "&trail", "contents precede the trailer")
    st = {key(e["lhs"]): key(e["rhs"]) for b, i, e in f.events("asg")}
    ctx.check(st.get("trailer[0]") == "type", "T6-block-trailer", "writer:type@0", f.name, f.loc, "trailer[0] = type", "trailer[0] = %s" % st.get("trailer[0]"))
    crcs = [key(e["rhs"]) for b, i, e in f.events("asg") if key(e["lhs"]) == "crc"]
    ok = len(crcs) == 2 and crcs[0] in ("ldb_crc32c_extend(0, block_contents->data, block_contents->size)",
                                         "ldb_crc32c_value(block_contents->data, block_contents->size)") and \
        crcs[1] == "ldb_crc32c_extend(crc, trailer, 1)"
    ctx.check(ok, "T6-block-trailer", "writer:crc-coverage", f.name, f.loc, "CRC covers contents then the type byte", "writer CRC computed as %s" % crcs)
    fw = find_calls(f, "ldb_fixed32_write")
    ctx.check(len(fw) == 1 and argkey(fw[0][2], 0) == "(trailer + 1)" and argkey(fw[0][2], 1) == "ldb_crc32c_mask(crc)", "T6-block-trailer",
              "writer:crc@1", f.name, f.loc, "masked CRC at trailer + 1", "CRC stored as %s" % [argkey(e, 1) for b, i, e in fw])
    ctx.check(st.get("handle->offset") == "tb->offset" and st.get("handle->size") == "block_contents->size", "T6-block-trailer",
              "writer:handle", f.name, f.loc, "the handle records offset and size of the contents", "handle recording changed")
    off = [(e["op"], key(e["rhs"])) for b, i, e in f.events("asg") if key(e["lhs"]) == "tb->offset"]
    ctx.check(off == [("+=", "(block_contents->size + 5)")], "T6-block-trailer", "writer:offset", f.name, f.loc,
              "offset advances by contents + trailer", "offset advance is %s" % off)
    sl = [e for b, i, e in find_calls(f, "ldb_slice_set") if argkey(e, 0) == "&trail"]
    ctx.check(len(sl) == 1 and const_val(sl[0]["a"][2]) == 5, "T6-block-trailer", "writer:trailer-size", f.name, f.loc,
              "trailer is 5 bytes", "trailer slice size changed")
    wb = ctx.fn("ldb_tablegen_write_block", TB)
    wr = one_call(ctx, wb, "ldb_tablegen_write_raw_block")[0][2]
    ctx.check(argkey(wr, 2) == "type", "T6-block-trailer", "writer:type-arg", wb.name, site(wb, wr), "the type byte describes what was written",
              "type argument changed")
    # the (contents, type) pair handed to the raw writer is consistent on every path
    from ..rules import check_automaton, BAD

    def step(q, e, st, b, i):
        if q == BAD:
            return q
        c, t = q
        if e["e"] == "asg" and key(e["lhs"]) == "block_contents":
            c = "compressed" if key(e["rhs"]) == "compressed" else ("raw" if key(e["rhs"]) == "(&raw)" else "?")
            return (c, t)
        if e["e"] == "asg" and key(e["lhs"]) == "type":
            v = const_val(e["rhs"])
            return (c, v if v is not None else "?")
        if is_call(e, "ldb_tablegen_write_raw_block"):
            if c == "compressed" and t != 1:
                return BAD
            if c == "raw" and t != 0:
                return BAD
            if c == "?":
                return BAD
        return q

    def edge(q, lit):
        if q == BAD or lit is None:
            return q
        if lit[0] == "case" and key(lit[1]) == "type":
            return (q[0], const_val(lit[2]))
        if lit[0] not in ("case", "default"):
            from ..paths import norm_literal
            for op, a, b2 in norm_literal(lit[0], lit[1]):
                if op == "==" and a == "type" and b2.isdigit():
                    return (q[0], int(b2))
                if op == "==" and b2 == "type" and a.isdigit():
                    return (q[0], int(a))
        return q
    check_automaton(ctx, "T6-block-trailer", "writer:type-matches-contents", wb, ("?", "?"), step, edge,
                    "compressed bytes are written with the snappy type and raw bytes with type none, on every path")


def check_filter_builder(ctx):
    """An empty filter answers "no" to every key (ldb_filter_matches): the builder
    may emit one only for a window without keys."""
    f = ctx.fn("ldb_filtergen_generate", "src/table/filter_block.c")
    g = xgraph(ctx.P, f)
    nk = [e for b, i, e in f.events("decl") if e["n"] == "num_keys"]
    ctx.check(bool(nk) and key(nk[0].get("init")) == "fb->start.length", "T2-filter-empty-only-without-keys", "num_keys", f.name, f.loc,
              "num_keys is the number of pending keys", "num_keys computed as %s" % (key(nk[0].get("init")) if nk else None))
    bb = find_calls(f, "ldb_bloom_build") + [x for x in f.events("call") if "ldb_bloom_build" in (x[2].get("mac") or ())]
    ctx.require(bool(bb), "ldb_filtergen_generate: policy build call not found")
    from ..rules import check_automaton, BAD, holds_exact

    def step(q, e, st, b, i):
        if q == BAD:
            return q
        if e["e"] == "call" and (e.get("f") == "ldb_bloom_build" or "ldb_bloom_build" in (e.get("mac") or ())):
            return 1
        if e["e"] == "ret" and q == 0:
            return BAD
        return q

    def edge(q, lit):
        if q == 0 and lit is not None and lit[0] not in ("case", "default"):
            from ..paths import norm_literal
            for a in norm_literal(lit[0], lit[1]):
                if a in (("==", "num_keys", "0"), ("==", "fb->start.length", "0")):
                    return 2
        return q
    check_automaton(ctx, "T2-filter-empty-only-without-keys", "fast-path", f, 0, step, edge,
                    "a filter is emitted without consulting the policy only when the window holds no key at all")
    ak = ctx.fn("ldb_filtergen_add_key", "src/table/filter_block.c")
    ps = find_calls(ak, "ldb_array_push")
    ctx.check(len(ps) == 1 and argkey(ps[0][2], 0) == "&fb->start", "T2-filter-empty-only-without-keys", "every-key-counted", ak.name, ak.loc,
              "every added key (also an empty one) is recorded in fb->start", "key bookkeeping changed")


def check_snappy_literal(ctx):
    """Literal length encodings: a length stored in k bytes is below 2^(8k)."""
    f = ctx.fn("emit_literal", "src/util/snappy.c")
    g = xgraph(ctx.P, f)
    tags = {}
    for b, i, e in f.events("asg"):
        r = strip_casts(e["rhs"])
        c = const_val(r)
        if c is not None and (c & 3) == 0 and (c >> 2) in (60, 61, 62, 63):
            tags[c >> 2] = (b, i, e)
    ctx.require(60 in tags, "emit_literal: tag 60 store not found")
    last = max(tags)
    for t, (b, i, e) in sorted(tags.items()):
        nbytes = t - 59
        atoms = g.must_at(b, i)
        # the widest form has no local upper bound: literals never exceed one encoder block (checked below)
        ok = holds(atoms, (">=", "n", 60)) and (t == last or holds(atoms, ("<", "n", 1 << (8 * nbytes))))
        ctx.check(ok, "T2-snappy-literal-length", "tag%d" % t,
                  f.name, site(f, e), "length stored in %d byte(s) is < 2^%d" % (nbytes, 8 * nbytes),
                  "literal length tag %d chosen under %s" % (t, fmt_atoms(atoms)))
    enc = ctx.fn("ldb_snappy_encode", "src/util/snappy.c")
    sizes = [const_val(e["a"][2]) if const_val(e["a"][2]) is not None else key(e["a"][2]) for b, i, e in find_calls(enc, "encode_block")]
    genc = xgraph(ctx.P, enc)
    okb = True
    for b, i, e in find_calls(enc, "encode_block"):
        c = const_val(e["a"][2])
        if c is not None:
            okb = okb and c <= (1 << (8 * (last - 59)))
        else:
            okb = okb and holds(genc.must_at(b, i), ("<", key(e["a"][2]), 1 << (8 * (last - 59))))
    ctx.check(okb, "T2-snappy-literal-length", "block-bound", enc.name, enc.loc,
              "one encoder block (and so one literal) is at most 2^%d bytes" % (8 * (last - 59)),
              "encoder block sizes %s can exceed what the widest literal form stores" % sizes)
    short = [(b, i, e) for (b, i, e) in f.events("asg") if key(e["rhs"]).startswith("((n << 2)")]
    ctx.check(len(short) == 1 and holds(g.must_at(short[0][0], short[0][1]), ("<", "n", 60)), "T2-snappy-literal-length", "inline", f.name, f.loc,
              "lengths below 60 are stored in the tag byte", "inline literal length guard changed")
    nd = [e for b, i, e in f.events("decl") if e["n"] == "n"]
    ctx.check(bool(nd) and key(nd[0].get("init")) == "(xn - 1)", "T2-snappy-literal-length", "n=len-1", f.name, f.loc,
              "the encoded value is length - 1", "n computed as %s" % (key(nd[0].get("init")) if nd else None))


def check_footer(ctx):
    w = ctx.fn("ldb_footer_write", FMT)
    hw = [argkey(e, 1) for b, i, e in sorted(find_calls(w, "ldb_handle_write"), key=lambda x: _pos(x[2]))]
    ctx.check(hw == ["&x->metaindex_handle", "&x->index_handle"], "T6-footer", "writer:handles", w.name, w.loc,
              "metaindex handle then index handle", "footer handles written: %s" % hw)
    pad = [key(e["rhs"]) for b, i, e in w.events("asg") if key(e["lhs"]) == "pad"]
    ctx.check(pad == ["(40 - (zp - tp))"], "T6-footer", "writer:padding", w.name, w.loc, "padded to 2 * LDB_HANDLE_SIZE", "padding computed as %s" % pad)
    mg = [e for b, i, e in find_calls(w, "ldb_fixed64_write")]
    ctx.check(len(mg) == 1 and const_val(mg[0]["a"][1]) == 0xdb4775248b80fb57, "T6-footer", "writer:magic", w.name, w.loc, "magic number last",
              "magic write changed")
    always_before(ctx, "T6-footer", "writer:order", w, lambda e: is_call(e, "ldb_padding_write"), lambda e: is_call(e, "ldb_fixed64_write"),
                  "padding precedes the magic")
    r = ctx.fn("ldb_footer_read", FMT)
    g = xgraph(ctx.P, r)
    hr = sorted(find_calls(r, "ldb_handle_read"), key=lambda x: _pos(x[2]))
    ctx.check([argkey(e, 0) for b, i, e in hr] == ["&z->metaindex_handle", "&z->index_handle"], "T6-footer", "reader:handles", r.name, r.loc,
              "metaindex handle then index handle", "footer handles read: %s" % [argkey(e, 0) for b, i, e in hr])
    for b, i, e in hr:
        a2 = g.must_at(b, i)
        ok = holds(a2, (">=", "(*xn)", 48)) and holds(a2, ("==", "re:ldb_fixed64_decode\\(\\(\\(\\(\\*xp\\) \\+ 48\\) - 8\\)\\)#\\d+", 0xdb4775248b80fb57))
        ctx.check(ok, "T2-footer-guards", "handles-after-size-and-magic@%s" % e["l"].split(":")[1], r.name, site(r, e),
                  "handles are decoded only from a 48-byte footer with the right magic",
                  "footer handles decoded without size/magic guard; facts %s" % fmt_atoms(a2))
    adv = {key(e["lhs"]): key(e["rhs"]) for b, i, e in r.events("asg")}
    ctx.check(adv.get("(*xp)") == "(tp + 48)" and adv.get("(*xn)") == "(tn - 48)", "T6-footer", "reader:advance", r.name, r.loc,
              "the cursor advances by the fixed footer size", "footer cursor advance changed: %s" % adv)
    to = ctx.fn("ldb_table_open", "src/table/table.c")
    gt = xgraph(ctx.P, to)
    pr = one_call(ctx, to, "ldb_rfile_pread")[0]
    ctx.check(holds(gt.must_at(pr[0], pr[1]), (">=", "size", 48)) and argkey(pr[2], 3) == "48" and argkey(pr[2], 4) == "(size - 48)",
              "T2-footer-guards", "table_open:size", to.name, site(to, pr[2]), "the footer is read from a file of at least 48 bytes",
              "table open footer read changed")
    fi = one_call(ctx, to, "ldb_footer_import")[0]
    rb = one_call(ctx, to, "ldb_read_block")[0]
    a2 = gt.must_at(rb[0], rb[1])
    ctx.check(holds(a2, ("!=", CALL("ldb_footer_import"), "0")) and holds(a2, ("==", "rc", "0")), "T2-footer-guards", "table_open:index-after-footer",
              to.name, site(to, rb[2]), "the index block is read only after a valid footer", "index block read without a valid footer")


def check_read_options_forwarded(ctx):
    """The caller's read options (verify_checksums above all) reach the block
    reads: a function that receives `const ldb_readopt_t *` hands that same
    pointer to every callee that takes one."""
    from ..rules import value_source
    P = ctx.P
    isopt = lambda t: "ldb_readopt_t" in t and "*" in t
    n = 0
    for f in P.all_functions:
        mine = [p["n"] for p in f.params if isopt(p["t"])]
        if len(mine) != 1:
            continue
        for b, i, e in f.events("call"):
            cal = e.get("f")
            callee = P.resolve(cal, f) if cal else None
            if callee is None:
                continue
            for k, p in enumerate(callee.params):
                if not isopt(p["t"]) or k >= len(e.get("a", ())):
                    continue
                n += 1
                got = key(value_source(f, strip_casts(e["a"][k])))
                ctx.check(got == mine[0], "T2-read-options-forwarded", "%s>%s@%s" % (f.name, cal, e["l"].split(":")[1]), f.name, site(f, e),
                          "%s passes its caller's read options on to %s" % (f.name, cal),
                          "%s calls %s with read options `%s` instead of its caller's `%s`: verify_checksums / snapshot of the caller are lost"
                          % (f.name, cal, got, mine[0]), subject="%s>%s" % (f.name, cal))
    ctx.require(n >= 12, "only %d forwarding sites of read options found" % n)


def check_filter_name_match(ctx):
    """A table's filter block is interpreted only by the policy that built
    it: the metaindex entry found by the seek is used only when its key
    equals "filter.<name of the reader's policy>" (a seek lands on the first
    entry at or after the target, which may be another policy's filter; its
    bytes probed by this policy reject present keys)."""
    from ..rules import value_source
    f = ctx.fn("ldb_table_read_meta", "src/table/table.c")
    rf = one_call(ctx, f, "ldb_table_read_filter")
    g = xgraph(ctx.P, f)
    eq = find_calls(f, "ldb_slice_equal")
    names = set()
    for b, i, e in eq:
        for k in (0, 1):
            a = strip_casts(e["a"][k])
            if isinstance(a, dict) and a.get("k") == "un" and a.get("op") == "&":
                names.add(key(value_source(f, a["x"])))
    for b, i, e in rf:
        atoms = g.must_at(b, i)
        ok = holds(atoms, ("!=", CALL("ldb_slice_equal"), "0")) and "key" in names and any("key" in n and "iter" in n for n in names - {"key"})
        ctx.check(ok, "T2-filter-name-match", "read_meta@%s" % e["l"].split(":")[1], f.name, site(f, e),
                  "the filter block is loaded only from the metaindex entry whose key equals the reader policy's filter name",
                  "the filter block is loaded without comparing the metaindex key with the reader policy's filter name; "
                  "compared: %s; facts on every path: %s" % (sorted(names), fmt_atoms(atoms)))
    sk = [e for b, i, e in f.events("call") if is_call(e, "ldb_iter_seek") or (e.get("fp") is not None and "seek" in key(e["fp"]))]
    ctx.check(len(sk) == 1 and argkey(sk[0], 1) == "&key", "T2-filter-name-match", "seek-target", f.name, f.loc,
              "the metaindex is sought to that same name", "metaindex seek target: %s" % [argkey(e, 1) for e in sk])


def check_verification_switched_on(ctx):
    P = ctx.P
    ii = ctx.fn("ldb_inputiter_create", "src/version_set.c")
    st = {key(e["lhs"]): key(e["rhs"]) for b, i, e in ii.events("asg")}
    ctx.check(st.get("options.verify_checksums") == "vset->options->paranoid_checks", "T2-verify-on", "compaction-input", ii.name, ii.loc,
              "compaction inputs verify checksums under paranoid_checks", "compaction input verification is %s" % st.get("options.verify_checksums"))
    uses = [argkey(e, 1) for b, i, e in find_calls(ii, ("ldb_tables_iterate", "ldb_twoiter_create"))] + \
        [argkey(e, 3) for b, i, e in find_calls(ii, "ldb_twoiter_create")]
    ctx.check("&options" in uses, "T2-verify-on", "compaction-input:passed", ii.name, ii.loc, "the options with verification are the ones used",
              "verification options not passed to the input iterators")
    for fn_name in ("ldb_table_open", "ldb_table_read_meta", "ldb_table_read_filter"):
        f = ctx.fn(fn_name, "src/table/table.c")
        sts = [(b, i, e) for (b, i, e) in f.events("asg") if key(e["lhs"]) == "opt.verify_checksums" and const_val(e["rhs"]) == 1]
        ctx.check(len(sts) == 1, "T2-verify-on", fn_name, f.name, f.loc, "paranoid_checks switches block verification on",
                  "%s no longer enables checksum verification" % fn_name)
        if sts:
            must_cross_edge_before(ctx, "T2-verify-on", fn_name + ":before-read", f,
                                   lambda c, p: "paranoid_checks" in key(c),
                                   lambda e: is_call(e, "ldb_read_block"),
                                   "the paranoid_checks test precedes the block read")
            rb = one_call(ctx, f, "ldb_read_block")[0][2]
            ctx.check(argkey(rb, 2) == "&opt", "T2-verify-on", fn_name + ":passed", f.name, site(f, rb), "the read uses these options",
                      "block read uses %s" % argkey(rb, 2))
    check_read_options_forwarded(ctx)
    # user reads: verify_checksums of the caller's options reaches ldb_read_block unchanged
    br = ctx.fn("ldb_table_blockreader", "src/table/table.c")
    for b, i, e in one_call(ctx, br, "ldb_read_block"):
        ctx.check(argkey(e, 2) == "options", "T2-verify-on", "blockreader@%s" % e["l"].split(":")[1], br.name, site(br, e),
                  "data blocks are read with the caller's read options", "data block read uses %s" % argkey(e, 2))


ITER_STATUS_SITES = [
    ("ldb_table_internal_get", "src/table/table.c", "block_iter"),
    ("ldb_table_internal_get", "src/table/table.c", "index_iter"),
    ("ldb_build_table", "src/builder.c", "it"),
    ("ldb_finish_compaction_output_file", "src/db_impl.c", "iter"),
    ("ldb_do_compaction_work", "src/db_impl.c", "input"),
]


def check_iterator_statuses(ctx):
    """T4 for iterators: the status of a table/block iterator is read before
    the iterator is destroyed (an unread status is an undetected corruption)."""
    from ..rules import check_automaton, BAD
    for fn_name, file, var in ITER_STATUS_SITES:
        f = ctx.fn(fn_name, file)

        def step(q, e, st, b, i, var=var):
            # 0 not created, 1 created & status unread, 2 status read
            if q == BAD:
                return q
            if e["e"] in ("asg", "decl"):
                lhs = key(e["lhs"]) if e["e"] == "asg" else e["n"]
                rhs = e.get("rhs") if e["e"] == "asg" else e.get("init")
                r = strip_casts(rhs)
                if lhs == var and isinstance(r, dict) and r.get("k") == "call":
                    return 1
            if e["e"] == "call" and "ldb_iter_status" in (e.get("mac") or ()) and var in key(e.get("fp") or {}):
                return 2
            if is_call(e, "ldb_iter_destroy") and argkey(e, 0) == var and q == 1:
                return BAD
            return q
        def edge(q, lit):
            # on a path that already carries an error the iterator's own status adds nothing
            if q == 1 and lit is not None and lit[0] not in ("case", "default") and truth_of(lit[0], lit[1], "rc") is True:
                return 2
            return q
        check_automaton(ctx, "T4-iterator-status-read", "%s:%s" % (fn_name, var), f, 0, step, edge,
                        "the status of `%s` is read before it is destroyed (unless an error is already being returned)" % var)
    ig = ctx.fn("ldb_table_internal_get", "src/table/table.c")
    rets = [key(e.get("x")) for b, i, e in ig.events("ret") if not e.get("synthetic")]
    ctx.check(rets == ["rc"], "T4-iterator-status-read", "internal_get:returns-status", ig.name, ig.loc,
              "the collected iterator status is returned", "ldb_table_internal_get returns %s" % rets)
    ti = ctx.fn("ldb_twoiter_set_data_iter", "src/table/two_level_iterator.c")
    # the status of the data iterator about to be replaced is read (and kept): either through the helper or in place
    reads = lambda e: is_call(e, "ldb_twoiter_saverr") or (is_call(e, "ldb_wrapiter_status") and argkey(e, 0) == "&iter->data_iter")
    sv = [(b, i, e) for (b, i, e) in ti.events("call") if reads(e)]
    ctx.check(bool(sv), "T4-iterator-status-read", "twoiter:saverr", ti.name, ti.loc, "a replaced data iterator's error is kept",
              "a replaced data iterator's error is kept: ldb_twoiter_set_data_iter no longer reads the status of the iterator it replaces")
    keeps = [f2 for f2 in (ti, ctx.P.functions.get("ldb_twoiter_saverr")) if f2 is not None and not isinstance(f2, list)]
    kept = any(key(e["lhs"]) == "iter->status" and e["op"] == "=" for f2 in keeps for b, i, e in f2.events("asg"))
    ctx.check(kept, "T4-iterator-status-read", "twoiter:saverr-stores", ti.name, ti.loc, "the error read is stored in the iterator's own status",
              "the status of a replaced data iterator is read but not stored")
    if sv:
        def step(q, e, st, b, i):
            from ..rules import BAD
            if q == BAD:
                return q
            if reads(e):
                return 1
            if is_call(e, "ldb_wrapiter_set") and q == 0:
                return BAD
            return q

        def edge(q, lit):
            if q == 0 and lit is not None and lit[0] not in ("case", "default") and \
                    (truth_of(lit[0], lit[1], "iter->data_iter.iter") is False or rel_edge(lit[0], lit[1], "==", "iter->data_iter.iter", 0)):
                return 1
            return q
        from ..rules import check_automaton
        check_automaton(ctx, "T4-iterator-status-read", "twoiter:saverr-before-replace", ti, 0, step, edge,
                        "an existing data iterator is replaced only after its status was saved")


def check_separators(ctx):
    """Index keys: start <= separator < limit and key <= successor.  Decided
    structurally: the bytewise comparator bumps a byte only where that keeps
    the result strictly below the limit (room of at least 2 at the first
    differing byte, inside the common length) and never bumps 0xff; the
    internal-key wrappers replace the key only if the user part became
    shorter and logically larger, and then append the (MAX_SEQUENCE, SEEK)
    tag, which sorts first among equal user keys."""
    CMP = "src/util/comparator.c"
    f = ctx.fn("shortest_separator", CMP)
    g = xgraph(ctx.P, f)
    bumps = [(b, i, e) for (b, i, e) in f.events() if e["e"] in ("inc", "asg") and "start->data[diff_index]" == key(e.get("x") or e.get("lhs"))]
    ctx.require(len(bumps) == 1, "shortest_separator: byte bump not found")
    b, i, e = bumps[0]
    atoms = g.must_at(b, i)
    ok = holds(atoms, ("<", "(diff_byte + 1)", "limit->data[diff_index]")) and holds(atoms, ("<", "diff_byte", 255)) and \
        holds(atoms, ("<", "diff_index", "min_length"))
    ctx.check(ok, "T2-separator-contract", "bytewise:bump-has-room", f.name, site(f, e),
              "the first differing byte is bumped only if the result stays strictly below the limit",
              "byte bump reachable without room below the limit; facts %s" % fmt_atoms(atoms))
    d = {x["n"]: key(x.get("init")) for _, _, x in f.events("decl")}
    ctx.check(d.get("diff_byte") == "start->data[diff_index]", "T2-separator-contract", "bytewise:diff-byte", f.name, f.loc,
              "diff_byte is the start byte at the first difference", "diff_byte is %s" % d.get("diff_byte"))
    from ..rules import must_pass_before_success
    must_pass_before_success(ctx, "T2-separator-contract", "bytewise:truncate-after-bump", f,
                             lambda x: x is e, lambda x: is_call(x, "ldb_buffer_resize") and argkey(x, 0) == "start" and
                             argkey(x, 1) == "(diff_index + 1)", "the separator is cut right after the bumped byte",
                             success=lambda x, st: True)
    # the scan stops at the first differing byte
    heads = [blk for blk in f.blocks.values() if blk.term is not None and "cond" in blk.term and
             key(blk.term["cond"]) == "(start->data[diff_index] == limit->data[diff_index])"]
    ctx.check(len(heads) == 1, "T2-separator-contract", "bytewise:first-difference", f.name, f.loc,
              "the common prefix ends at the first differing byte", "prefix scan condition changed")
    ss = ctx.fn("short_successor", CMP)
    gs = xgraph(ctx.P, ss)
    bumps = [(b, i, x) for (b, i, x) in ss.events() if x["e"] in ("inc", "asg") and key(x.get("x") or x.get("lhs")) == "key->data[i]"]
    ctx.require(len(bumps) == 1, "short_successor: byte bump not found")
    b, i, x = bumps[0]
    atoms = gs.must_at(b, i)
    ctx.check(holds(atoms, ("!=", "key->data[i]", 255)) and holds(atoms, ("<", "i", "key->size")), "T2-separator-contract",
              "bytewise:successor-bump", ss.name, site(ss, x), "only a byte below 0xff inside the key is bumped",
              "successor bump unguarded; facts %s" % fmt_atoms(atoms))
    must_pass_before_success(ctx, "T2-separator-contract", "bytewise:successor-truncate", ss,
                             lambda y: y is x, lambda y: is_call(y, "ldb_buffer_resize") and argkey(y, 1) == "(i + 1)",
                             "the successor is cut right after the bumped byte", success=lambda y, st: True)
    # internal-key wrappers
    for name, orig, ukey in (("ldb_ikc_shortest_separator", "start", "user_start"), ("ldb_ikc_short_successor", "key", "user_key")):
        w = ctx.fn(name, "src/dbformat.c")
        gw = xgraph(ctx.P, w)
        sw = [(b, i, y) for (b, i, y) in w.events("call") if is_call(y, "ldb_buffer_swap") and argkey(y, 0) == orig]
        ctx.require(len(sw) == 1, "%s: result swap not found" % name)
        tag = [(b, i, y) for (b, i, y) in w.events("call") if is_call(y, "ldb_buffer_fixed64") and argkey(y, 0) == "&tmp"]
        ctx.check(len(tag) == 1, "T2-separator-contract", "%s:tag" % name, w.name, w.loc,
                  "the shortened user key gets an 8-byte tag", "tag append changed")
        if tag:
            atoms = gw.must_at(tag[0][0], tag[0][1])
            ok = holds(atoms, ("<", "tmp.size", "%s.size" % ukey)) and \
                holds(atoms, ("<", "re:.*compare.*\\(uc, \\(&%s\\), \\(&tmp\\)\\)#\\d+" % ukey, "0"))
            ctx.check(ok, "T2-separator-contract", "%s:replace-guard" % name, w.name, site(w, tag[0][2]),
                      "the key is replaced only by a shorter, logically larger user key",
                      "replacement guard changed; facts %s" % fmt_atoms(atoms))
        if tag:
            from ..rules import always_before
            always_before(ctx, "T2-separator-contract", "%s:tag-before-swap" % name, w,
                          lambda y: is_call(y, "ldb_buffer_fixed64") and argkey(y, 0) == "&tmp",
                          lambda y: is_call(y, "ldb_buffer_swap"), "the tag is appended before the key is replaced")
            a1 = tag[0][2]["a"][1]
            from ..program import walk
            consts = {const_val(n) for n in walk(a1) if const_val(n) is not None}
            names = " ".join(str(n.get("mac")) for n in walk(a1) if n.get("mac"))
            ctx.check(("LDB_MAX_SEQUENCE" in names or (2 ** 56 - 1) in consts or const_val(a1) == ((2 ** 56 - 1) << 8 | 1)),
                      "T2-separator-contract", "%s:tag-is-max-seek" % name, w.name, site(w, tag[0][2]),
                      "the tag is (MAX_SEQUENCE, SEEK): the earliest internal key of that user key",
                      "tag value is %s" % key(a1))


def check_filter_offsets(ctx):
    """Filters are indexed by the file offset at which a data block starts
    (offset >> base_lg): the builder must announce the offset after the block
    *and its trailer*, i.e. the running file offset, or a block that starts
    within a few bytes after a 2 KiB boundary is filed under the previous
    filter and the reader's lookup rejects keys that are present."""
    TB = "src/table/table_builder.c"
    f = ctx.fn("ldb_tablegen_flush", TB)
    sb = [(b, i, e) for (b, i, e) in f.events("call") if is_call(e, "ldb_filtergen_start_block")]
    ctx.check(len(sb) == 1 and argkey(sb[0][2], 1) == "tb->offset", "T6-filter-offset", "flush:next-block-offset", f.name, f.loc,
              "the filter builder is told the running file offset (after the block and its trailer)",
              "the filter builder is told %s" % [argkey(e, 1) for b, i, e in sb])
    from ..rules import always_before
    always_before(ctx, "T6-filter-offset", "flush:after-write", f, lambda e: is_call(e, "ldb_tablegen_write_block"),
                  lambda e: is_call(e, "ldb_filtergen_start_block"), "the offset is announced after the block was written")
    wr = ctx.fn("ldb_tablegen_write_raw_block", TB)
    adv = [key(e["rhs"]) for b, i, e in wr.events("asg") if key(e["lhs"]) == "tb->offset" and e["op"] == "+="]
    ctx.check(len(adv) == 1 and "5" in adv[0] and "size" in adv[0], "T6-filter-offset", "offset-includes-trailer", wr.name, wr.loc,
              "the running offset advances by the block size plus the 5-byte trailer", "tb->offset advances by %s" % adv)
    # every key that enters a data block enters the filter of that block (a filter that lacks a present key makes
    # point lookups - in particular snapshot lookups of an older version - miss it)
    ad = ctx.fn("ldb_tablegen_add", TB)
    from ..rules import check_automaton, BAD

    def step(q, e, st, b, i):
        if q == BAD:
            return q
        if is_call(e, "ldb_filtergen_add_key") and argkey(e, 1) == "key":
            return 1
        if is_call(e, "ldb_blockgen_add") and argkey(e, 0) == "&tb->data_block" and q == 0:
            return BAD
        return q

    def edge(q, lit):
        if q == 0 and lit is not None and lit[0] not in ("case", "default") and \
                (rel_edge(lit[0], lit[1], "==", "tb->filter_block", 0) or truth_of(lit[0], lit[1], "tb->filter_block") is False):
            return 1
        return q
    check_automaton(ctx, "T1-filter-every-key", "tablegen_add", ad, 0, step, edge,
                    "with a filter policy every key added to a data block was added to the filter first")
    bm = ctx.fn("bloom_match", "src/util/bloom.c")
    kd = [key(e["rhs"]) for b, i, e in bm.events("asg") if key(e["lhs"]) == "k"] + \
         [key(e["init"]) for b, i, e in bm.events("decl") if e["n"] == "k" and "init" in e]
    loops = [key(blk.term["cond"]) for blk in bm.blocks.values() if blk.term is not None and blk.term.get("k") in ("ForStmt", "WhileStmt", "DoStmt")
             and "cond" in blk.term]
    ctx.check(kd == ["data[(len - 1)]"] and loops and all(c in ("(i < k)", "(k > i)") for c in loops), "T6-bloom-probes", "stored-k", bm.name, bm.loc,
              "a filter is probed as often as the count stored in it says (filters outlive the policy setting they were built with)",
              "probe count: k = %s, loop conditions %s" % (kd, loops))
    tg = ctx.fn("ldb_table_internal_get", "src/table/table.c")
    fm = [(b, i, e) for (b, i, e) in tg.events("call") if is_call(e, "ldb_filter_matches")]
    ctx.check(len(fm) == 1 and argkey(fm[0][2], 1) == "handle.offset", "T6-filter-offset", "reader:block-offset", tg.name, tg.loc,
              "the reader consults the filter of the block's own start offset", "the reader consults the filter at %s" % [argkey(e, 1) for b, i, e in fm])


def check_twoiter_status(ctx):
    """ldb_twoiter_status reports the first error among the index iterator,
    the current data iterator and the error latched from earlier data
    iterators: a child's status is returned only if it is an error, otherwise
    the latched status is what the caller sees."""
    f = ctx.fn("ldb_twoiter_status", "src/table/two_level_iterator.c")
    g = xgraph(ctx.P, f)
    rets = [(b, i, e) for (b, i, e) in f.events("ret") if e.get("x") is not None]
    ctx.require(len(rets) >= 2, "ldb_twoiter_status: returns not found")
    latched = 0
    for b, i, e in rets:
        k2 = key(e["x"])
        if k2 == "iter->status":
            latched += 1
            continue
        atoms = g.must_at(b, i)
        ctx.check(holds(atoms, ("!=", k2, "0")), "T4-iterator-status-read", "twoiter_status:child-only-if-error@%s" % e["l"].split(":")[1], f.name,
                  site(f, e), "a child's status is returned only when it is an error",
                  "`return %s` can return OK and hide the latched error; facts %s" % (k2, fmt_atoms(atoms)))
    ctx.check(latched >= 1, "T4-iterator-status-read", "twoiter_status:latched", f.name, f.loc,
              "otherwise the latched status is returned", "the latched status is no longer returned")
    # the latched status is only ever set from OK to an error (by ldb_twoiter_saverr) and initialised once: re-positioning
    # the iterator must not forget that a block or a file was skipped as unreadable
    from ..rules import stores_of_field_in_program
    clears = sorted({f2.name for f2, b, i, e in stores_of_field_in_program(ctx.P, "ldb_twoiter_s", "status") if const_val(e["rhs"]) == 0})
    ctx.check(clears == ["ldb_twoiter_init"], "T4-iterator-status-read", "twoiter:latched-status-never-cleared", f.name, f.loc,
              "the latched error is initialised once and never reset", "iter->status is reset to OK in %s" % clears)
    # who may replace the data iterator: only the function that saves the outgoing iterator's status first
    who = sorted({f2.name for f2 in ctx.P.all_functions if f2.file == "src/table/two_level_iterator.c"
                  for b, i, e in f2.events("call") if is_call(e, "ldb_wrapiter_set") and argkey(e, 0) == "&iter->data_iter"})
    ctx.check(who == ["ldb_twoiter_set_data_iter"], "T5-twoiter-replace", "who-may-replace", f.name, f.loc,
              "the data iterator is replaced only by ldb_twoiter_set_data_iter (which keeps the outgoing iterator's error)",
              "the data iterator is replaced in %s" % who)
    st = sorted(argkey(e, 0) for b, i, e in f.events("call") if is_call(e, "ldb_wrapiter_status"))
    ctx.check(st == ["&iter->data_iter", "&iter->index_iter"], "T4-iterator-status-read", "twoiter_status:children", f.name, f.loc,
              "both children are asked", "children asked: %s" % st)


def check_policy_wrapping(ctx):
    """Tables hold internal keys; a user filter policy sees user keys.  Every
    component that builds or reads tables (the database, repair) wraps the user
    policy with ldb_ifp_init before it hands its options to the table layer -
    a raw policy builds filters over internal keys, and every later point
    lookup through the database misses the keys of such a table."""
    from ..rules import must_pass_before_success
    for fname, file in (("repair_init", "src/repair.c"), ("ldb_create", "src/db_impl.c")):
        f = ctx.fn(fname, file)
        so = [(b, i, e) for (b, i, e) in f.events("call") if is_call(e, "ldb_sanitize_options")]
        ctx.require(len(so) == 1, "%s: ldb_sanitize_options call not found" % fname)
        pol = argkey(so[0][2], 2)
        ctx.require(pol is not None and pol.startswith("&"), "%s: internal policy argument not found" % fname)

        def step(q, e, st, b, i, pol=pol):
            if q == BAD:
                return q
            if is_call(e, "ldb_ifp_init") and argkey(e, 0) == pol:
                return 1
            if is_call(e, "ldb_sanitize_options") and q == 0:
                return BAD
            return q
        from ..rules import check_automaton, BAD
        check_automaton(ctx, "T6-policy-wrapping", fname, f, 0, step, None,
                        "the policy handed to the table layer was initialised by ldb_ifp_init on every path")
        raw = [key(e["rhs"]) for b, i, e in f.events("asg") if key(e["lhs"]) == pol[1:]]
        ctx.check(not raw, "T6-policy-wrapping", fname + ":no-raw-copy", f.name, f.loc,
                  "the internal policy is never a plain copy of the user's", "%s assigned from %s" % (pol[1:], raw))
    sz = ctx.fn("ldb_sanitize_options", "src/db_impl.c")
    fp = [key(e["rhs"]) for b, i, e in sz.events("asg") if key(e["lhs"]) == "result.filter_policy"]
    ctx.check(len(fp) == 1 and "ipolicy" in fp[0] and "src->filter_policy" in fp[0], "T6-policy-wrapping", "sanitize", sz.name, sz.loc,
              "the sanitised options carry the wrapped policy iff the user set one", "result.filter_policy = %s" % fp)


def check_capi_comparator(ctx):
    """A comparator created through the C API has an order the library knows
    nothing about: it must not carry the bytewise key-shortening hooks (index
    keys shortened in byte order are not separators in the user's order, and
    point lookups and seeks then land in the wrong block)."""
    f = ctx.fn("ldb_c_comparator_create", "src/c.c")
    st = {key(e["lhs"]): e for b, i, e in f.events("asg")}
    whole = [key(e["rhs"]) for b, i, e in f.events("asg") if key(e["lhs"]) in ("cmp->rep", "(*cmp)")]
    ok = all(k2 in st and const_val(st[k2]["rhs"]) == 0 for k2 in ("cmp->rep.shortest_separator", "cmp->rep.short_successor", "cmp->rep.user_comparator"))
    ctx.check(ok and not whole, "T6-capi-comparator", "no-shortening-hooks", f.name, f.loc,
              "a C-API comparator has no key-shortening hooks and is not an internal-key comparator",
              "C-API comparator: hooks %s, whole-struct copy from %s" %
              ({k2: (key(st[k2]["rhs"]) if k2 in st else None) for k2 in ("cmp->rep.shortest_separator", "cmp->rep.short_successor")}, whole))
    ctx.check("cmp->rep.compare" in st and key(st["cmp->rep.compare"]["rhs"]) == "slice_compare", "T6-capi-comparator", "compare-shim", f.name, f.loc,
              "comparisons go through the shim that calls the user's function", "C-API compare is %s" % (key(st["cmp->rep.compare"]["rhs"]) if "cmp->rep.compare" in st else None))
