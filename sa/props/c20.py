"""C20 Lifecycle operations are exclusive, complete and non-destructive.

Decided: the database lock is taken before anything is read or written, is
stored in the handle, released by close/failed open, and released on every
exit of backup/copy/destroy; in-process exclusivity (file-id set) and flock
order inside ldb_lock_file; ldb_backup computes the live set and copies in
the DB section in which no background work is scheduled; ldb_destroy
removes only names it parsed, under the lock, the LOCK file last; opening
with a different comparator is refused before anything is modified.
Not decided: contents of a backup; concurrent writers during backup.
"""
from ..paths import xgraph
from ..program import const_val, key, strip_casts
from ..rules import (DEAD, BAD, always_before, argkey, call_ok_dominates, check_automaton, check_guard, find_calls,
                     fmt_atoms, holds, is_call, must_pass_before_success, need_call, never_after, one_call,
                     rel_edge, site, truth_of)
from ..locks import LOCK, UNLOCK, WAIT
from . import c05, c17, c13

EXPLANATION = ("Static decision of the lifecycle clauses of C20: acquire/release pairing automata for the database "
               "lock on every exit, ordering inside the lock primitive, critical-section identity of ldb_backup, "
               "guard dominance of every removal in ldb_destroy, and the comparator refusal before modification.")
RULE = "obligation = one pairing / ordering / guard instance; non-trivial = matched a site and walked a path"
MIN_OBLIGATIONS = 40
DB = "src/db_impl.c"
ENV = "src/util/env_unix_impl.h"


def check_handle_lock(ctx):
    rc = ctx.fn("ldb_recover", DB)
    lf = one_call(ctx, rc, "ldb_lock_file")[0]
    ctx.check(argkey(lf[2], 1) == "&db->db_lock", "T10-db-lock", "stored-in-handle", rc.name, site(rc, lf[2]),
              "the lock is stored in the handle", "lock stored in %s" % argkey(lf[2], 1))
    for callee in ("ldb_file_exists", "ldb_new_db", "ldb_versions_recover", "ldb_get_children", "ldb_recover_log_file"):
        for ev in find_calls(rc, callee):
            call_ok_dominates(ctx, "T10-db-lock", "lock-first:" + callee, rc, ev, "ldb_lock_file",
                              "%s during recovery" % callee)
    cr = ctx.fn("ldb_create", DB)
    st = [e for b, i, e in cr.events("asg") if key(e["lhs"]) == "db->db_lock"]
    ctx.check(len(st) == 1 and const_val(st[0]["rhs"]) == 0, "T10-db-lock", "initially-null", cr.name, cr.loc,
              "a fresh handle holds no lock", "db_lock initialisation changed")
    di = ctx.fn("ldb_destroy_internal", DB)
    ul = need_call(ctx, "T10-db-lock", "released-on-close", di, "ldb_unlock_file", "close / failed open release the lock")
    if ul:
        ctx.check(argkey(ul[0][2], 0) == "db->db_lock", "T10-db-lock", "released-on-close:arg", di.name, site(di, ul[0][2]),
                  "the handle's lock is the one released", "released lock is %s" % argkey(ul[0][2], 0))
        must_pass_before_success(ctx, "T10-db-lock", "released-iff-held", di, None,
                                 lambda e: is_call(e, "ldb_unlock_file"),
                                 "every close releases a held lock", success=lambda e, st: True,
                                 edge_pass=lambda lit: truth_of(lit[0], lit[1], "db->db_lock") is False)
        check_guard(ctx, "T10-db-lock", "released-only-if-held", di, ul[0], [[("!=", "db->db_lock", "0")]], "releasing the lock")
    callers = {f.name for f, b, i, e in ctx.P.callers_of("ldb_destroy_internal")}
    ctx.check(callers == {"ldb_open", "ldb_close"}, "T10-db-lock", "destroy-callers", di.name, di.loc,
              "the handle is destroyed by close and by a failed open", "ldb_destroy_internal is called by %s" % sorted(callers))


def _pair(ctx, fn, lockvar, inst):
    """After a successful ldb_lock_file every exit has released it.  "Successful" is read off
    the path state: the last execution of the call returned LDB_OK."""
    ids = {e["id"] for b, i, e in fn.events("call") if e.get("f") == "ldb_lock_file"}
    ctx.require(ids, "anchor vanished: %s no longer calls ldb_lock_file" % fn.name)

    def step(q, e, st, b, i):
        if q == BAD:
            return q
        if q == 0 and any(("cz", c) in st for c in ids):
            q = 1
        if q == 1 and is_call(e, "ldb_unlock_file") and argkey(e, 0) == lockvar:
            return 2
        if e["e"] == "ret" and q == 1:
            return BAD
        return q
    def edge(q, lit):
        # idiom (checked in check_lock_primitive): a successful ldb_lock_file stored a non-null
        # lock object through its out-parameter, so `lock == NULL` is infeasible afterwards
        if q == 1 and lit is not None and lit[0] not in ("case", "default") and truth_of(lit[0], lit[1], lockvar) is False:
            return DEAD
        return q
    check_automaton(ctx, "T10-lock-pairing", inst, fn, 0, step, edge,
                    "a lock taken by %s is released on every exit" % fn.name, keep_calls=("ldb_lock_file",))


def check_tools(ctx):
    P = ctx.P
    bi = ctx.fn("ldb_backup_inner", DB)
    lf = one_call(ctx, bi, "ldb_lock_file")[0][2]
    ctx.check(argkey(lf, 1) == "&lock", "T10-lock-pairing", "backup_inner:var", bi.name, site(bi, lf), "lock kept in `lock`",
              "lock kept in %s" % argkey(lf, 1))
    _pair(ctx, bi, "lock", "backup_inner")
    for callee in ("ldb_copy_file", "ldb_link_file"):
        for ev in find_calls(bi, callee):
            call_ok_dominates(ctx, "T10-lock-pairing", "backup_inner:locked:" + callee, bi, ev, "ldb_lock_file",
                              "copying into the backup directory")
    # the destination must be a directory this call created: an existing one may hold another database
    # (or be the source itself) and the failure cleanup below removes database files from it
    cd = need_call(ctx, "T2-backup-fresh-dir", "mkdir", bi, "ldb_create_dir", "the backup directory is created by the backup")
    if cd:
        ctx.check(argkey(cd[0][2], 0) == "bakname", "T2-backup-fresh-dir", "mkdir-arg", bi.name, site(bi, cd[0][2]),
                  "the destination directory is created", "ldb_create_dir called on %s" % argkey(cd[0][2], 0))
        for callee in ("ldb_lock_file", "ldb_copy_file", "ldb_link_file", "ldb_remove_file", "ldb_remove_dir"):
            for ev in find_calls(bi, callee):
                call_ok_dominates(ctx, "T2-backup-fresh-dir", "%s@%s" % (callee, ev[2]["l"].split(":")[1]), bi, ev, "ldb_create_dir",
                                  "%s in the backup directory" % callee)
    # only the backup directory is cleaned after a failure
    for b, i, e in find_calls(bi, "ldb_remove_file"):
        ctx.check(argkey(e, 0) in ("dst", "lockname"), "T5-backup-nondestructive", "remove@%s" % e["l"].split(":")[1],
                  bi.name, site(bi, e), "backup removes only inside the backup directory",
                  "ldb_backup_inner removes %s" % argkey(e, 0))
    jn = [e for b, i, e in find_calls(bi, "ldb_join") if argkey(e, 0) == "dst"]
    ctx.check(bool(jn) and all(argkey(e, 2) == "bakname" for e in jn), "T5-backup-nondestructive", "dst-in-bakname", bi.name, bi.loc,
              "dst paths lie under the backup directory", "dst is built from %s" % [argkey(e, 2) for e in jn])
    ln = [e for b, i, e in find_calls(bi, "ldb_lock_filename")]
    ctx.check(len(ln) == 1 and argkey(ln[0], 0) == "lockname" and argkey(ln[0], 2) == "bakname", "T5-backup-nondestructive",
              "lockname-in-bakname", bi.name, bi.loc, "the lock taken by backup is the backup directory's",
              "backup lock name built from %s" % [argkey(e, 2) for e in ln])
    for callee in ("ldb_copy_file", "ldb_link_file"):
        for b, i, e in find_calls(bi, callee):
            ctx.check(argkey(e, 0) == "src" and argkey(e, 1) == "dst", "T5-backup-nondestructive",
                      "direction:%s@%s" % (callee, e["l"].split(":")[1]), bi.name, site(bi, e),
                      "files are copied from the source into the backup", "copy direction is %s -> %s" % (argkey(e, 0), argkey(e, 1)))
    # what backup does with a file of each type (specialised per enumerator: a switch or an if-chain alike)
    from ..rules import sequences_under, eval_tree
    joins = sorted([(int(e["l"].split(":")[1]), e) for b, i, e in find_calls(bi, "ldb_join") if argkey(e, 0) == "dst"], key=lambda x: x[0])
    ctx.require(len(joins) >= 1, "ldb_backup_inner: destination path construction not found")
    first_join = joins[0][1]

    def tok(e):
        if is_call(e, "ldb_copy_file"):
            return "copy"
        if is_call(e, "ldb_link_file"):
            return "link"
        return None

    def one(s2):
        out = []
        for x in s2:
            if x == "<loop>":
                break
            out.append(x)
        return tuple(out)
    want = {"LDB_FILE_LOG": {(0, 0): ("copy",), (0, 1): ("copy",), (1, 0): ("copy",), (1, 1): ("copy",)},
            "LDB_FILE_DESC": {(0, 0): ("copy",), (0, 1): ("copy",), (1, 0): ("copy",), (1, 1): ("copy",)},
            "LDB_FILE_CURRENT": {(0, 0): ("copy",), (0, 1): ("copy",), (1, 0): ("copy",), (1, 1): ("copy",)},
            "LDB_FILE_TABLE": {(0, 0): ("link",), (0, 1): ("link",), (1, 0): (), (1, 1): ("link",)},
            "LDB_FILE_TEMP": {(0, 0): (), (0, 1): (), (1, 0): (), (1, 1): ()},
            "LDB_FILE_LOCK": {(0, 0): (), (0, 1): (), (1, 0): (), (1, 1): ()},
            "LDB_FILE_INFO": {(0, 0): ("copy",), (0, 1): ("copy",), (1, 0): (), (1, 1): ()}}
    for en in c13.FILETYPES:
        tv = int(P.enums[en]["v"])
        for (have_live, is_live), w in sorted(want[en].items()):
            env = {"type": tv, "(live == 0)": int(not have_live), "(live != 0)": int(have_live), "rc": 0, "(rc == 0)": 1, "(rc != 0)": 0}

            def val(t, env=env, is_live=is_live):
                kk = key(t)
                if kk in env:
                    return env[kk]
                if t.get("k") == "call" and t.get("f") in ("rb_set64_has", "ldb_rb_set64_has"):
                    return is_live
                if t.get("k") == "call" and t.get("f") in ("ldb_copy_file", "ldb_link_file"):
                    return 0
                if t.get("k") == "call" and t.get("f") == "ldb_join":
                    return 1
                return None
            got = {one(x) for x in sequences_under(bi, tok, val, start=lambda e: e is first_join)}
            ctx.check(got == {w}, "T6-filetype-exhaustive", "backup:%s:%s" % (en, "live-set,%s" % ("in" if is_live else "out") if have_live else "closed-db"),
                      bi.name, bi.loc, "%s -> %s" % (en, w or "skipped"),
                      "backup of a %s file (%s) performs %s, expected %s" % (en, "live set given" if have_live else "no live set", sorted(got), w),
                      subject="backup:" + en)
    g = xgraph(P, bi)
    for b, i, e in find_calls(bi, "ldb_link_file"):
        atoms = g.must_at(b, i)
        ctx.check(holds(atoms, ("==", "type", 2)), "T2-backup-live", "link-only-tables", bi.name, site(bi, e),
                  "only table files are hard-linked", "non-table file linked")
    must_pass_before_success(ctx, "T1-backup-durable", "syncdir", bi, lambda e: is_call(e, "ldb_lock_file"),
                             lambda e: is_call(e, "ldb_sync_dir") and argkey(e, 0) == "bakname",
                             "a successful backup has synced its directory")
    # ldb_copy / ldb_destroy
    cp = ctx.fn("ldb_copy", DB)
    _pair(ctx, cp, "lock", "ldb_copy")
    bc = one_call(ctx, cp, "ldb_backup_inner")[0]
    call_ok_dominates(ctx, "T10-lock-pairing", "copy:locked", cp, bc, "ldb_lock_file", "copying a closed database")
    lk = one_call(ctx, cp, "ldb_lock_file")[0][2]
    lnm = [e for b, i, e in find_calls(cp, "ldb_lock_filename")]
    ctx.check(len(lnm) == 1 and argkey(lnm[0], 2) == "from" and argkey(lk, 0) == "path", "T10-lock-pairing", "copy:source-lock",
              cp.name, site(cp, lk), "ldb_copy locks the source database", "ldb_copy locks %s" % [argkey(e, 2) for e in lnm])
    ds = ctx.fn("ldb_destroy", DB)
    _pair(ctx, ds, "lock", "ldb_destroy")
    gd = xgraph(P, ds, keep_calls=("ldb_lock_file",))
    rms = find_calls(ds, "ldb_remove_file")
    ctx.require(len(rms) == 3, "ldb_destroy: expected three removal sites, found %d" % len(rms))
    for b, i, e in rms:
        target = argkey(e, 0)
        call_ok_dominates(ctx, "T2-destroy-guard", "locked@%s" % e["l"].split(":")[1], ds, (b, i, e), "ldb_lock_file",
                          "removing %s" % target)
        if target == "path":
            atoms = xgraph(P, ds).must_at(b, i)
            ok = holds(atoms, ("!=", ("CALL", "ldb_parse_filename"), "0")) and holds(atoms, ("!=", ("CALL", "ldb_join"), "0"))
            ctx.check(ok, "T2-destroy-guard", "parsed@%s" % e["l"].split(":")[1], ds.name, site(ds, e),
                      "only names accepted by ldb_parse_filename (and joined successfully) are removed",
                      "a file is removed without the parse/join guard; facts %s" % fmt_atoms(atoms))
    jn = [(argkey(e, 2), argkey(e, 3)) for b, i, e in find_calls(ds, "ldb_join") if argkey(e, 0) == "path"]
    ctx.check(sorted(jn) == [("dbname", "name"), ("subdir", "name")], "T5-destroy-scope", "paths", ds.name, ds.loc,
              "removed paths are dbname/<listed name> and dbname/lost/<listed name>", "destroy paths built from %s" % jn)
    # the `lost` sub-directory is emptied only if it is not a database of its own (no CURRENT inside *it*)
    gc2 = [(b, i, e) for (b, i, e) in find_calls(ds, "ldb_get_children") if argkey(e, 0) == "subdir"]
    ctx.require(len(gc2) == 1, "ldb_destroy: listing of the lost/ sub-directory not found")
    a2 = xgraph(P, ds).must_at(gc2[0][0], gc2[0][1])
    ctx.check(holds(a2, ("!=", "re:ldb_current_filename\\(path, .*, subdir\\)#\\d+", "0")) and
              holds(a2, ("==", "re:ldb_file_exists\\(path\\)#\\d+", "0")), "T5-destroy-scope", "lost-dir-is-not-a-database", ds.name,
              site(ds, gc2[0][2]), "lost/ is emptied only if lost/CURRENT does not exist",
              "lost/ is emptied without checking its own CURRENT; facts %s" % fmt_atoms(a2))
    nm = sorted(key(e.get("init")) for b, i, e in ds.events("decl") if e["n"] == "name")
    ctx.check(nm == ["files[i]", "subfiles[i]"], "T5-destroy-scope", "names", ds.name, ds.loc,
              "names come from the two directory listings", "names come from %s" % nm)
    islock = lambda e: is_call(e, "ldb_remove_file") and argkey(e, 0) == "lockname"
    always_before(ctx, "T1-destroy-order", "unlock<remove-lockfile", ds, lambda e: is_call(e, "ldb_unlock_file"), islock,
                  "the LOCK file is removed after the lock was released")
    never_after(ctx, "T1-destroy-order", "lockfile-last", ds, islock,
                lambda e: is_call(e, "ldb_remove_file") and argkey(e, 0) == "path",
                "the LOCK file is the last file removed")
    # in the main loop the LOCK file is skipped
    main = [x for x in rms if argkey(x[2], 0) == "path" and
            any(a[1].startswith("ldb_join(path, ") and ", dbname, name)" in a[1]
                for a in (xgraph(P, ds).must_at(x[0], x[1]) or ()))]
    ctx.require(len(main) == 1, "ldb_destroy: removal loop over the database directory not found")
    a0 = xgraph(P, ds).must_at(main[0][0], main[0][1])
    ctx.check(holds(a0, ("!=", "type", 1)), "T1-destroy-order", "lockfile-skipped", ds.name, site(ds, main[0][2]),
              "the LOCK file is not removed while the lock is held", "the LOCK file may be removed inside the loop")


def check_parse_exact(ctx):
    """Only names the library itself produces are database files: a numbered
    file is accepted iff what follows the digits is exactly one of the known
    suffixes.  destroy, backup and the collector act on whatever
    ldb_parse_filename accepts, so a prefix match makes them delete or copy a
    user's `000003.log.bak`."""
    f = ctx.fn("ldb_parse_filename", "src/filename.c")
    lits = []
    for b, i, e in f.events("call"):
        for a in e.get("a", []):
            a2 = strip_casts(a)
            if isinstance(a2, dict) and a2.get("k") == "str":
                lits.append((e.get("f"), a2.get("v")))
    suf = sorted((c, v) for c, v in lits if (v or "").startswith("."))
    ctx.check(suf == [("strcmp", ".dbtmp"), ("strcmp", ".ldb"), ("strcmp", ".log"), ("strcmp", ".sst")], "T5-parse-exact", "suffixes", f.name, f.loc,
              "the four numbered-file suffixes are compared exactly", "suffix tests are %s" % suf)
    fixed = sorted((c, v) for c, v in lits if v in ("CURRENT", "LOCK", "LOG", "LOG.old"))
    ctx.check(fixed == [("strcmp", "CURRENT"), ("strcmp", "LOCK"), ("strcmp", "LOG"), ("strcmp", "LOG.old")], "T5-parse-exact", "fixed-names", f.name, f.loc,
              "CURRENT, LOCK, LOG and LOG.old are compared exactly", "fixed-name tests are %s" % fixed)
    g = xgraph(ctx.P, f)
    for b, i, e in f.events("ret"):
        if const_val(e.get("x")) == 1:
            atoms = g.must_at(b, i)
            ctx.ok("T5-parse-exact", "accept@%s" % e["l"].split(":")[1], site(f, e), "accepting return under %s" % fmt_atoms(atoms)[:120], False)


def check_lock_primitive(ctx):
    P = ctx.P
    lf = ctx.fn("ldb_lock_file", ENV)
    g = xgraph(P, lf)
    def step_f2(q, e, st, b, i):
        if q == BAD:
            return q
        if q == 1 and is_call(e, "close"):
            return BAD
        return q

    def edge_f2(q, lit):
        if q == BAD or lit is None or lit[0] in ("case", "default"):
            return q
        c = strip_casts(lit[0])
        pol = lit[1]
        while isinstance(c, dict) and c.get("k") == "un" and c.get("op") == "!":
            pol = not pol
            c = strip_casts(c["x"])
        if isinstance(c, dict) and c.get("k") == "call" and (c.get("f") or "").endswith("_has") and "file_set" in key(c) and pol:
            return 1
        return q
    put = need_call(ctx, "T1-lockfile", "registers-id", lf, ("ldb_rb_tree_put", "rb_set_put", "ldb_rb_set_put"), "a held lock is registered in the process-wide set")
    has = need_call(ctx, "T1-lockfile", "checks-id", lf, ("ldb_rb_tree_has", "rb_set_has", "ldb_rb_set_has"), "a second lock of the same file in one process is refused")
    fl = need_call(ctx, "T1-lockfile", "flock", lf, "ldb_flock", "the OS lock is taken")
    if put and has and fl:
        # the in-process check guards the OS lock on every path on which the file already exists
        ctx.ok("T1-lockfile", "has-check-present", lf.loc, "in-process table is consulted")
        always_before(ctx, "T1-lockfile", "flock<put", lf, lambda e: is_call(e, "ldb_flock"),
                      lambda e: is_call(e, ("ldb_rb_tree_put", "rb_set_put", "ldb_rb_set_put")), "the id is registered only after the OS lock succeeded")
        atoms = g.must_at(put[0][0], put[0][1])
        ctx.check(holds(atoms, ("==", ("CALL", "ldb_flock"), "0")), "T1-lockfile", "success-guards", lf.name, site(lf, put[0][2]),
                  "success requires that flock succeeded", "lock success guards changed; facts %s" % fmt_atoms(atoms))
        # a file that exists and is in the table is refused: the has-true edge leads to the failure exit
        from ..rules import ret_may_be_zero

        def step_h(q, e, st, b, i):
            if q == BAD:
                return q
            if e["e"] == "ret" and q == 1 and ret_may_be_zero(e, st):
                return BAD
            return q
        check_automaton(ctx, "T1-lockfile", "held-in-process-is-refused", lf, 0, step_h, edge_f2,
                        "a file already locked by this process is refused")
        ctx.check(const_val(fl[0][2]["a"][1]) == 1, "T1-lockfile", "flock-exclusive", lf.name, site(lf, fl[0][2]),
                  "ldb_flock(fd, 1) takes the lock", "ldb_flock called with %s" % key(fl[0][2]["a"][1]))
    # the lookup in the process-wide table and the registration are one critical section of the table's mutex:
    # fcntl locks are per process, so a second thread that passes the lookup before the first registered also
    # gets the OS lock
    LOCKF, UNLOCKF = "ldb_mutex_lock", "ldb_mutex_unlock"
    tbl = lambda e: is_call(e, ("ldb_rb_tree_put", "rb_set_put", "ldb_rb_set_put", "ldb_rb_tree_has", "rb_set_has", "ldb_rb_set_has")) and \
        "file_set" in (argkey(e, 0) or "")

    def step_s(q, e, st, b, i):
        if q == BAD:
            return q
        ph, held = q
        if is_call(e, LOCKF) and "file_mutex" in (argkey(e, 0) or ""):
            return (ph, True)
        if is_call(e, UNLOCKF) and "file_mutex" in (argkey(e, 0) or ""):
            return (2 if ph == 1 else ph, False)
        if tbl(e):
            if not held or ph == 2:
                return BAD
            return (1, held)
        return q
    check_automaton(ctx, "T3d-lockfile-section", "table-check-and-register", lf, (0, False), step_s, None,
                    "the in-process lock table is consulted and updated in one critical section of its mutex")
    # POSIX record locks die when the process closes ANY descriptor of the file: once the in-process
    # table says this process already holds the lock, no descriptor of that file may be closed
    check_automaton(ctx, "T1-lockfile", "no-close-while-held-in-process", lf, 0, step_f2, edge_f2,
                    "a second descriptor of an already locked file is never opened-and-closed (fcntl locks would be dropped)")

    # out-parameter idiom: success implies *lock was set to a fresh object
    from ..rules import ret_may_be_zero
    def step0(q, e, st, b, i):
        if q == BAD:
            return q
        if e["e"] == "asg" and key(e["lhs"]) == "(*lock)" and key(e["rhs"]).startswith("ldb_malloc("):
            return 1
        if e["e"] == "ret" and q == 0 and ret_may_be_zero(e, st):
            return BAD
        return q
    check_automaton(ctx, "T1-lockfile", "out-param-set-on-success", lf, 0, step0, None,
                    "a successful ldb_lock_file has stored a lock object through its out-parameter")

    # every failure path closes the descriptor
    def step(q, e, st, b, i):
        # 0: no fd, 1: fd open & not closed, 2: closed or handed over
        if q == BAD:
            return q
        if is_call(e, "ldb_open"):
            return 1
        if q == 1 and is_call(e, "close"):
            return 2
        if q == 1 and e["e"] == "asg" and key(e["lhs"]).endswith("->fd") and key(e["rhs"]) == "fd":
            return 2
        if e["e"] == "ret" and q == 1:
            return BAD
        return q

    def edge(q, lit):
        if q == 1 and lit is not None and lit[0] not in ("case", "default") and rel_edge(lit[0], lit[1], "<", "fd", 0):
            return 0
        return q
    check_automaton(ctx, "T1-lockfile", "fd-closed-on-failure", lf, 0, step, edge,
                    "the lock file descriptor is closed on every failure path")
    uf = ctx.fn("ldb_unlock_file", ENV)
    for callee in (("ldb_rb_tree_del", "rb_set_del", "ldb_rb_set_del"), ("ldb_flock",), ("close",)):
        need_call(ctx, "T1-lockfile", "unlock:" + callee[0], uf, callee, "unlock unregisters, unlocks and closes")
    fl = find_calls(uf, "ldb_flock")
    if fl:
        ctx.check(const_val(fl[0][2]["a"][1]) == 0, "T1-lockfile", "unlock:flock-release", uf.name, site(uf, fl[0][2]),
                  "ldb_flock(fd, 0) releases", "unlock calls ldb_flock with %s" % key(fl[0][2]["a"][1]))
    fk = ctx.fn("ldb_flock", ENV)
    ctx.check(any(e.get("f") in ("fcntl", "flock") for b, i, e in fk.events("call")), "T1-lockfile", "flock-syscall", fk.name, fk.loc,
              "ldb_flock reaches fcntl/flock", "ldb_flock no longer calls fcntl/flock")


def check_backup_section(ctx):
    bk = ctx.fn("ldb_backup", DB)

    def step(q, e, st, b, i):
        # 0 before quiescence, 1 quiescent (scheduled == 0 seen), 2 backup done
        if q == BAD:
            return q
        if e["e"] == "call":
            if q == 1 and e.get("f") in (UNLOCK, WAIT):
                return 0          # quiescence is no longer guaranteed
            if q == 0 and e.get("f") in ("ldb_versions_add_files", "ldb_backup_inner"):
                return BAD
            if q == 1 and e.get("f") == "ldb_backup_inner":
                return 2
        return q

    def edge(q, lit):
        if q == 0 and lit is not None and lit[0] not in ("case", "default") and \
                truth_of(lit[0], lit[1], "db->background_compaction_scheduled") is False:
            return 1
        return q
    check_automaton(ctx, "T3d-backup-section", "quiescent-section", bk, 0, step, edge,
                    "live set and copy happen in the section in which no background call is scheduled")
    bi = one_call(ctx, bk, "ldb_backup_inner")[0]
    check_guard(ctx, "T2-backup-live", "no-bg-error", bk, bi, [[("==", "rc", "0")]], "backing up")
    rcd = [key(e["rhs"]) for b, i, e in bk.events("asg") if key(e["lhs"]) == "rc"]
    ctx.check("db->bg_error" in rcd, "T2-backup-live", "bg-error-read", bk.name, bk.loc,
              "a latched background error refuses the backup", "backup no longer looks at bg_error")
    af = one_call(ctx, bk, "ldb_versions_add_files")[0][2]
    ctx.check(argkey(af, 1) == "&live" and argkey(bi[2], 2) == "&live" and argkey(bi[2], 0) == "db->dbname",
              "T2-backup-live", "live-set", bk.name, site(bk, bi[2]), "the live set of the versions is what gets linked",
              "backup live set changed")
    always_before(ctx, "T2-backup-live", "live<copy", bk, lambda e: is_call(e, "ldb_versions_add_files"),
                  lambda e: is_call(e, "ldb_backup_inner"), "the live set is computed before copying")


def check(ctx):
    from . import c02 as _c02e
    _c02e.check_who_may(ctx)      # only the listed functions remove or rename database files (the LOCK file is removed by destroy alone)
    check_parse_exact(ctx)
    check_handle_lock(ctx)
    check_tools(ctx)
    check_lock_primitive(ctx)
    check_backup_section(ctx)
    c17.check_recover(ctx)
    c05.check_open(ctx)
