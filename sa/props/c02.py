"""C02 Synced writes survive power loss at any instant.

Decided: every durability point the property relies on is on every success
path, in the right order, on the right file (T1/T2), and who may unlink or
rename database files (T5).  Not decided: the file-system model itself.
"""
from ..program import const_val, key, show, strip_casts
from ..paths import xgraph
from ..rules import (cmp_edge, must_cross_edge_before, BAD, DEAD, argkey, always_before, call_ok_dominates, check_automaton, check_guard,
                     find_calls, holds, is_call, must_pass_before_success, not_under_edges, one_call,
                     ordered_before_success, site, stores_of_field_in_program, truth_of, fmt_atoms, CALL)
from . import c17

EXPLANATION = ("Static decision of the durability-ordering clauses of C02: on every feasible CFG path of the "
               "write path, the table builders, the MANIFEST/CURRENT switch and the env layer, the sync / flush / "
               "close / rename / unlink calls occur in the order the crash model needs, on the same file "
               "expression, and obsolete-file removal is reachable only after the new state is durable.")
RULE = ("obligation = one ordering/dominance/who-may rule instance at one site; non-trivial = matched a site and "
        "walked at least one path or compared one table row")
MIN_OBLIGATIONS = 45

DB = "src/db_impl.c"
VS = "src/version_set.c"
ENV = "src/util/env_unix_impl.h"

# who may remove / rename database files (DESIGN Appendix E)
MAY_REMOVE = {
    "ldb_remove_obsolete_files": "garbage collection of files not in the live set",
    "ldb_destroy": "whole-database removal under the lock, parsed names only",
    "ldb_backup_inner": "removes only inside the backup directory after a failed backup",
    "ldb_build_table": "own just-created output on failure / empty table",
    "ldb_new_db": "own just-created MANIFEST on failure",
    "ldb_versions_apply": "own just-created MANIFEST on failure",
    "ldb_set_current_file": "own temporary file on failure",
    "ldb_write_file": "own just-created file on failure",
    "repair_table": "repair: own temporary copy",
    "write_descriptor": "repair: own temporary descriptor",
}
MAY_RENAME = {
    "ldb_set_current_file": "tmp -> CURRENT",
    "ldb_sanitize_options": "LOG -> LOG.old",
    "archive_file": "repair: move into lost/",
    "repair_table": "repair: copy -> original",
    "write_descriptor": "repair: tmp -> MANIFEST-000001",
}


def _is_sync_of(k):
    return lambda e: is_call(e, "ldb_wfile_sync") and argkey(e, 0) == k


def _is_close_of(k):
    return lambda e: is_call(e, "ldb_wfile_close") and argkey(e, 0) == k


def check_write(ctx):
    f = ctx.fn("ldb_write", DB)
    add = one_call(ctx, f, "ldb_writer_add_record")
    ctx.require(len(add) == 1, "ldb_write: expected one ldb_writer_add_record")
    ctx.check(argkey(add[0][2], 0) == "db->log", "T1-wal-writer", "add_record(db->log)", f.name,
              site(f, add[0][2]), "the batch is appended through db->log",
              "the batch is appended through %s, not db->log" % argkey(add[0][2], 0))
    must_pass_before_success(
        ctx, "T1-wal-sync", "sync-before-ack", f,
        lambda e: is_call(e, "ldb_writer_add_record"),
        _is_sync_of("db->logfile"),
        "a sync write returns success only after ldb_wfile_sync(db->logfile)",
        edge_pass=lambda lit: truth_of(lit[0], lit[1], "options->sync") is False)
    syncs = [c for c in find_calls(f, "ldb_wfile_sync")]
    for b, i, e in syncs:
        ctx.check(e.get("use") in ("assign", "init", "ret", "cond"), "T4-wal-sync-status", "sync-result",
                  f.name, site(f, e), "the sync status is kept (%s)" % e.get("use"),
                  "the status of the log sync is discarded")
    # the queued writer advertises the caller's sync wish (read by the group builder of *another* thread)
    ws = [(b, i, e) for (b, i, e) in f.events("asg") if key(e["lhs"]) == "w.sync"]
    ctx.check(len(ws) == 1 and key(ws[0][2]["rhs"]) == "options->sync", "T6-waiter-sync-flag", "w.sync", f.name, f.loc,
              "the queued writer carries options->sync", "w.sync is set from %s" % [key(x[2]["rhs"]) for x in ws])
    if ws:
        always_before(ctx, "T6-waiter-sync-flag", "set<enqueue", f,
                      lambda e: e["e"] == "asg" and key(e["lhs"]) == "w.sync",
                      lambda e: is_call(e, "ldb_queue_push"),
                      "the sync wish is recorded before the writer becomes visible in the queue")
    # the flag that decides the sync is the caller's option, unchanged
    opt_stores = [x for x in f.events("asg") if key(x[2]["lhs"]).startswith("options->")]
    ctx.check(not opt_stores, "T2-wal-sync-flag", "options-const", f.name, f.loc,
              "options->sync is not overwritten in ldb_write", "ldb_write overwrites its options")
    # db->log is bound to db->logfile wherever it is (re)created
    n = 0
    for fn_name in ("ldb_make_room_for_write", "ldb_open", "ldb_recover_log_file"):
        g = ctx.fn(fn_name, DB)
        logfile_src = None
        for b, i, e in g.events("asg"):
            if key(e["lhs"]) == "db->logfile":
                logfile_src = key(e["rhs"])
        for b, i, e in g.events("asg"):
            if key(e["lhs"]) == "db->log":
                r = strip_casts(e["rhs"])
                ok = isinstance(r, dict) and r.get("k") == "call" and r.get("f") == "ldb_writer_create"
                a0 = key(r["a"][0]) if ok else None
                if ok and a0 == "db->logfile":
                    # db->logfile must already hold the new file: its store (or the create call that
                    # fills &db->logfile) precedes in the same block
                    prior = [j for j, x in enumerate(g.blocks[b].ev[:i])
                             if (x["e"] == "asg" and key(x["lhs"]) == "db->logfile")]
                    filled = any(is_call(x, "ldb_appendfile_create") and argkey(x, 1) == "&db->logfile"
                                 for bb, ii, x in g.events("call"))
                    ok = bool(prior) or (filled and logfile_src is None)
                else:
                    ok = ok and logfile_src is not None and a0 == logfile_src
                n += 1
                ctx.check(ok, "T6-wal-writer-bound", fn_name, g.name, site(g, e),
                          "db->log writes to the file stored in db->logfile",
                          "db->log is created on %s while db->logfile is %s" % (a0, logfile_src))
        # appendable reuse path: &db->logfile is filled by ldb_appendfile_create
    ctx.require(n >= 3, "db->log creation sites not found (%d)" % n)


def check_group(ctx):
    f = ctx.fn("ldb_build_batch_group", DB)
    tgt_app = lambda e: is_call(e, "ldb_batch_append") and argkey(e, 1) == "w->batch"
    tgt_last = lambda e: e["e"] == "asg" and key(e["lhs"]) == "(*last_writer)" and key(e["rhs"]) == "w"
    ctx.require(any(tgt_app(e) for b, i, e in f.events("call")), "ldb_build_batch_group: append of w->batch not found")
    ctx.require(any(tgt_last(e) for b, i, e in f.events("asg")), "ldb_build_batch_group: *last_writer = w not found")
    reset = lambda e: e["e"] == "asg" and key(e["lhs"]) == "w"
    okedge = lambda c, p: truth_of(c, p, "w->sync") is False or truth_of(c, p, "first->sync") is True
    must_cross_edge_before(ctx, "T2-group-sync", "append", f, okedge, tgt_app,
                           "a follower is appended only if it is not sync or the leader is sync", reset)
    must_cross_edge_before(ctx, "T2-group-sync", "last_writer", f, okedge, tgt_last,
                           "a follower is acknowledged only if it is not sync or the leader is sync", reset)
    for fld in ("sync",):
        sts = [e for b, i, e in f.events("asg") if key(e["lhs"]).endswith("->" + fld)]
        ctx.check(not sts, "T2-group-sync", "sync-flag-const", f.name, f.loc,
                  "the sync flags of queued writers are not modified while grouping",
                  "ldb_build_batch_group writes a writer's sync flag")


def check_env(ctx):
    s0 = ctx.fn("ldb_wfile_sync0", ENV)
    if ctx.P.has_fn("ldb_wfile_sync_dir"):
        ordered_before_success(ctx, "T1-env-sync-order", "dir,flush,fsync", s0,
                               [lambda e: is_call(e, "ldb_wfile_sync_dir"), lambda e: is_call(e, "ldb_wfile_flush"),
                                lambda e: is_call(e, "ldb_fsync")],
                               "sync = directory sync, buffer flush, fsync in this order")
    else:
        # the MANIFEST-only directory sync was folded into ldb_wfile_sync0: same order, the directory step being
        # conditional (its presence for a MANIFEST is the T1-env-syncdir rule below)
        ordered_before_success(ctx, "T1-env-sync-order", "dir,flush,fsync", s0,
                               [lambda e: is_call(e, "ldb_wfile_flush"), lambda e: is_call(e, "ldb_fsync")],
                               "sync = (directory sync,) buffer flush, fsync in this order")
        from ..rules import never_after
        never_after(ctx, "T1-env-sync-order", "dir-first", s0, lambda e: is_call(e, ("ldb_wfile_flush", "ldb_fsync")),
                    lambda e: is_call(e, "ldb_sync_dir"), "the directory is synced before the file's own flush and fsync")
    fs = one_call(ctx, s0, "ldb_fsync")[0][2]
    ctx.check(argkey(fs, 0) == "file->fd", "T1-env-fsync-fd", "fd", s0.name, site(s0, fs),
              "fsync is applied to the file's own descriptor", "fsync is applied to %s" % argkey(fs, 0))
    s = ctx.fn("ldb_wfile_sync", "src/util/env.c")
    must_pass_before_success(ctx, "T1-env-sync-wrapper", "sync->sync0", s, None,
                             lambda e: is_call(e, "ldb_wfile_sync0"),
                             "ldb_wfile_sync succeeds only through ldb_wfile_sync0")
    fsy = ctx.fn("ldb_fsync", ENV)
    must_pass_before_success(ctx, "T1-env-fsync", "fsync(2)", fsy, None,
                             lambda e: is_call(e, ("fsync", "fdatasync", "fcntl")),
                             "ldb_fsync returns 0 only after fsync/fdatasync/F_FULLFSYNC")
    # the helper that decides "directory sync only for a MANIFEST" - or, if it was folded into its caller, the caller
    sd = ctx.fn("ldb_wfile_sync_dir", ENV) if ctx.P.has_fn("ldb_wfile_sync_dir") else s0
    must_pass_before_success(ctx, "T1-env-syncdir", "manifest", sd, None,
                             lambda e: is_call(e, "ldb_sync_dir"),
                             "for a MANIFEST file the directory is synced",
                             edge_pass=lambda lit: truth_of(lit[0], lit[1], "file->manifest") is False)
    d = ctx.fn("ldb_sync_dir", ENV)
    must_pass_before_success(ctx, "T1-env-syncdir-fsync", "dir", d, None,
                             lambda e: is_call(e, "ldb_fsync"),
                             "ldb_sync_dir succeeds only after fsync of the directory")
    fl = ctx.fn("ldb_wfile_flush", ENV)
    must_pass_before_success(ctx, "T1-env-flush", "write", fl, None,
                             lambda e: is_call(e, "ldb_wfile_write"),
                             "flush hands the buffer to ldb_wfile_write")
    ww = ctx.fn("ldb_wfile_write", ENV)
    must_pass_before_success(ctx, "T1-env-write", "write(2)", ww, None,
                             lambda e: is_call(e, "ldb_write"),
                             "ldb_wfile_write goes through the write(2) loop")
    # the write(2) loop advances by what write(2) reported (a short write is not a complete one)
    lw = ctx.fn("ldb_write", ENV)
    wr = [(b, i, e) for (b, i, e) in lw.events("asg") if isinstance(strip_casts(e["rhs"]), dict) and strip_casts(e["rhs"]).get("k") == "call"
          and strip_casts(e["rhs"]).get("f") == "write"]
    ctx.require(len(wr) == 1, "ldb_write: write(2) call not found")
    res = key(wr[0][2]["lhs"])
    adv = sorted((key(e["lhs"]), e["op"], key(e["rhs"])) for b, i, e in lw.events("asg") if e["op"] in ("+=", "-="))
    ctx.check(adv == [("buf", "+=", res), ("cnt", "+=", res), ("len", "-=", res)], "T1-env-write", "advance-by-result", lw.name, lw.loc,
              "buffer, remaining length and count advance by the result of write(2)", "the write loop advances by %s" % adv)
    g_lw = xgraph(ctx.P, lw)
    for b, i, e in lw.events("asg"):
        if e["op"] in ("+=", "-="):
            ctx.check(holds(g_lw.must_at(b, i), (">=", res, "0")), "T1-env-write", "advance-after-error-check@%s" % e["l"].split(":")[1], lw.name,
                      site(lw, e), "the loop advances only after a non-negative result", "the write loop advances on a failed write")
    cl = ctx.fn("ldb_wfile_close", ENV)
    ordered_before_success(ctx, "T1-env-close", "flush,close", cl,
                           [lambda e: is_call(e, "ldb_wfile_flush"), lambda e: is_call(e, "close")],
                           "close flushes the user-space buffer first")
    # manifest flag derives from the file name
    ini = ctx.fn("ldb_wfile_init", ENV)
    ok = any(key(e["lhs"]) == "file->manifest" and "ldb_is_manifest" in key(e["rhs"]) for b, i, e in ini.events("asg"))
    ctx.check(ok, "T6-env-manifest-flag", "is_manifest", ini.name, ini.loc,
              "file->manifest = ldb_is_manifest(filename)", "file->manifest no longer derives from the file name")


def check_env_read(ctx):
    """The full-read loops of the POSIX env: a failed read(2) is an error even
    after earlier calls delivered data; a short read is continued (only a
    0-byte read is the end of the file - the log reader takes a short block for
    the end of the log); the cursor advances by what read(2) reported."""
    from ..rules import returned_after, sequences_under, rel_edge
    for fname, call in (("ldb_read", "read"), ("ldb_pread", "pread")):
        if not ctx.P.has_fn(fname):
            continue
        f = ctx.fn(fname, ENV)
        rd = [(b, i, e) for (b, i, e) in f.events("asg") if isinstance(strip_casts(e["rhs"]), dict) and strip_casts(e["rhs"]).get("k") == "call"
              and strip_casts(e["rhs"]).get("f") == call]
        ctx.require(len(rd) == 1, "%s: %s(2) call not found" % (fname, call))
        res = key(rd[0][2]["lhs"])
        def step(q, e, st, b, i, res=res):
            if q == BAD or q == DEAD:
                return q
            if e["e"] == "asg" and key(e["lhs"]) == res:
                return 0                      # a new attempt: the earlier failure was retried (EINTR)
            if e["e"] == "ret" and q == 1 and const_val(e.get("x")) != -1:
                return BAD
            return q

        def edge(q, lit, res=res):
            if lit is None or lit[0] in ("case", "default") or q == BAD:
                return q
            if q == 0 and rel_edge(lit[0], lit[1], "<", res, 0):
                return 1
            if q == 1 and rel_edge(lit[0], lit[1], ">=", res, 0):
                return DEAD                   # contradicts the failure this path carries
            return q
        check_automaton(ctx, "T1-env-read", fname + ":error-is-error", f, 0, step, edge,
                        "a failed %s(2) that is not retried makes the whole read fail, whatever was read before" % call)
        tok = lambda e: "call" if (e["e"] == "call" and e.get("f") == call) else ("ret" if e["e"] == "ret" else None)
        outcomes = {}
        for name, env in (("short read", {res: 5, "len": 10, "max": 100}), ("end of file", {res: 0, "len": 10, "max": 100})):
            seqs = sequences_under(f, tok, lambda t, env=env: env.get(key(t)), start=lambda e: e is rd[0][2])
            outcomes[name] = {("again" if ("call" in x or "<loop>" in x) else "stop") for x in seqs}
        ctx.check(outcomes == {"short read": {"again"}, "end of file": {"stop"}}, "T1-env-read", fname + ":short-read-continues", f.name, f.loc,
                  "a short read is continued; only a 0-byte read ends the loop",
                  "read loop continuation: %s" % {k2: sorted(v) for k2, v in sorted(outcomes.items())})
        adv = sorted((key(e["lhs"]), e["op"], key(e["rhs"])) for b, i, e in f.events("asg") if e["op"] in ("+=", "-="))
        want = [("buf", "+=", res), ("cnt", "+=", res), ("len", "-=", res)] + ([("off", "+=", res)] if fname == "ldb_pread" else [])
        ctx.check(adv == sorted(want), "T1-env-read", fname + ":advance-by-result", f.name, f.loc,
                  "buffer, remaining length and count advance by the result of %s(2)" % call, "the read loop advances by %s" % adv)


def check_tables(ctx):
    bt = ctx.fn("ldb_build_table", "src/builder.c")
    ordered_before_success(ctx, "T1-table-durable", "build_table", bt,
                           [lambda e: is_call(e, "ldb_tablegen_finish"), _is_sync_of("file"), _is_close_of("file")],
                           "a created level-0 table is finished, synced and closed before success",
                           start=lambda e: is_call(e, "ldb_truncfile_create"))
    tc = one_call(ctx, bt, "ldb_truncfile_create")[0][2]
    ctx.check(argkey(tc, 1) == "&file", "T1-table-file-id", "build_table", bt.name, site(bt, tc),
              "the synced file is the created one", "created file lands in %s" % argkey(tc, 1))
    tg = one_call(ctx, bt, "ldb_tablegen_create")[0][2]
    ctx.check(argkey(tg, 1) == "file", "T1-table-file-id", "build_table:builder", bt.name, site(bt, tg),
              "the table builder writes into the created file", "builder writes into %s" % argkey(tg, 1))
    fc = ctx.fn("ldb_finish_compaction_output_file", DB)
    ordered_before_success(ctx, "T1-table-durable", "compaction_output", fc,
                           [lambda e: is_call(e, "ldb_tablegen_finish"), _is_sync_of("state->outfile"),
                            _is_close_of("state->outfile")],
                           "a compaction output is finished, synced and closed before success")
    oc = ctx.fn("ldb_open_compaction_output_file", DB)
    tc = one_call(ctx, oc, "ldb_truncfile_create")[0][2]
    tg = one_call(ctx, oc, "ldb_tablegen_create")[0][2]
    ctx.check(argkey(tc, 1) == "&state->outfile" and argkey(tg, 1) == "state->outfile", "T1-table-file-id",
              "compaction_output", oc.name, site(oc, tc), "builder and sync use state->outfile",
              "output file identity broken: create->%s builder->%s" % (argkey(tc, 1), argkey(tg, 1)))
    # edit after table
    w0 = ctx.fn("ldb_write_level0_table", DB)
    af = one_call(ctx, w0, "ldb_edit_add_file")[0]
    call_ok_dominates(ctx, "T2-edit-after-table", "level0", w0, af, "ldb_build_table",
                      "recording the level-0 table in the edit")
    check_guard(ctx, "T2-edit-after-table", "level0:nonempty", w0, af, [[("!=", "meta.file_size", "0")]],
                "recording the level-0 table")
    cm = ctx.fn("ldb_compact_memtable", DB)
    ap = one_call(ctx, cm, "ldb_versions_apply")[0]
    check_guard(ctx, "T2-apply-after-table", "compact_memtable", cm, ap, [[("==", "rc", "0")]],
                "ldb_versions_apply in ldb_compact_memtable")
    dw = ctx.fn("ldb_do_compaction_work", DB)
    ins = one_call(ctx, dw, "ldb_install_compaction_results")[0]
    check_guard(ctx, "T2-apply-after-table", "compaction", dw, ins, [[("==", "rc", "0")]],
                "ldb_install_compaction_results")
    # every finish of an output precedes install: the last open builder is finished on the success path
    ordered_before_success(ctx, "T1-outputs-finished", "compaction", dw,
                           [lambda e: is_call(e, "ldb_install_compaction_results")],
                           "a successful compaction installed its results")

    def step(q, e, st, b, i):
        # q: 0 = no builder known open, 1 = builder open
        if q == BAD:
            return q
        if is_call(e, "ldb_open_compaction_output_file"):
            return 1
        if is_call(e, "ldb_finish_compaction_output_file"):
            return 0
        if is_call(e, "ldb_install_compaction_results") and q == 1:
            return BAD
        return q

    def edge(q, lit):
        if q == BAD or lit is None or lit[0] in ("case", "default"):
            return q
        t = truth_of(lit[0], lit[1], "state->builder")
        if t is False:
            return 0
        if t is True:
            return 1
        return q
    check_automaton(ctx, "T1-outputs-finished", "no-open-builder-at-install", dw, 0, step, edge,
                    "no compaction output is still being built when results are installed")
    ic = ctx.fn("ldb_install_compaction_results", DB)
    af = one_call(ctx, ic, "ldb_edit_add_file")[0][2]
    outdecl = [e for b, i, e in ic.events("decl") if e["n"] == "out"]
    ok = bool(outdecl) and key(outdecl[0].get("init")).startswith("state->outputs.items[") and \
        argkey(af, 2) == "out->number" and argkey(af, 3) == "out->file_size"
    ctx.check(ok, "T6-install-outputs", "state->outputs", ic.name, site(ic, af),
              "installed files are exactly the recorded outputs", "installed files no longer come from state->outputs")


def check_manifest(ctx):
    va = ctx.fn("ldb_versions_apply", VS)
    ordered_before_success(ctx, "T1-manifest-durable", "apply", va,
                           [lambda e: is_call(e, "ldb_writer_add_record") and argkey(e, 0) == "vset->descriptor_log",
                            _is_sync_of("vset->descriptor_file")],
                           "an applied edit is written and synced to the MANIFEST before success")
    # idiom: fname[] is non-empty iff ldb_desc_filename(fname, ...) succeeded; the MANIFEST is created
    # only under that success and fname is not written otherwise (both checked here), hence the
    # edge `fname[0] == 0` is infeasible after the creation.
    # the new MANIFEST is created *truncating*: a crashed earlier rollover may have left a torn file of the same name
    # (the file number is derived from the old MANIFEST again), and appending after it would publish a MANIFEST whose
    # first record does not check out
    creators = [(b, i, e) for (b, i, e) in va.events("call") if is_call(e, ("ldb_truncfile_create", "ldb_appendfile_create"))]
    ctx.require(len(creators) >= 1, "ldb_versions_apply: creation of the new MANIFEST file not found")
    ctx.check(all(is_call(e, "ldb_truncfile_create") for b, i, e in creators), "T1-manifest-fresh-file", "apply:truncating-create", va.name, va.loc,
              "a new MANIFEST starts as an empty file", "the new MANIFEST is opened with %s (leftover bytes of a crashed rollover are kept)" %
              sorted({e.get("f") for b, i, e in creators}))
    if not any(is_call(e, "ldb_truncfile_create") for b, i, e in creators):
        return
    tc = one_call(ctx, va, "ldb_truncfile_create")[0]
    check_guard(ctx, "T2-manifest-name-flag", "create-under-name", va, tc,
                [[("!=", CALL("ldb_desc_filename"), "0")]], "creating the new MANIFEST file")
    fstores = [e for b, i, e in va.events("asg") if key(e["lhs"]).startswith("fname[")]
    ctx.check(len(fstores) == 1 and const_val(fstores[0]["rhs"]) == 0, "T2-manifest-name-flag", "fname-writes",
              va.name, va.loc, "fname[] is only cleared once at entry",
              "fname[] is written at %s" % [x["l"] for x in fstores])
    must_pass_before_success(ctx, "T1-manifest-current", "apply:new-manifest", va,
                             lambda e: is_call(e, "ldb_truncfile_create"),
                             lambda e: is_call(e, "ldb_set_current_file"),
                             "a freshly created MANIFEST is published through CURRENT before success",
                             edge_dead=lambda lit: truth_of(lit[0], lit[1], "fname[0]") is False)
    never_sync_after_current(ctx, va)
    wl = one_call(ctx, va, "ldb_writer_create")[0][2]
    ctx.check(argkey(wl, 0) == "vset->descriptor_file", "T6-manifest-writer-bound", "apply", va.name,
              site(va, wl), "descriptor_log writes into descriptor_file",
              "descriptor_log is created on %s" % argkey(wl, 0))
    for callee in ("ldb_versions_append_version",):
        ev = one_call(ctx, va, callee)[0]
        check_guard(ctx, "T2-install-after-durable", callee, va, ev, [[("==", "rc", "0")]],
                    "installing the new version")
    for fld in ("log_number", "prev_log_number"):
        sts = [(b, i, e) for (b, i, e) in va.events("asg") if key(e["lhs"]) == "vset->" + fld]
        ctx.require(len(sts) == 1, "ldb_versions_apply: store to vset->%s not found" % fld)
        check_guard(ctx, "T2-install-after-durable", fld, va, sts[0], [[("==", "rc", "0")]],
                    "vset->%s update" % fld)
    # nothing between the last durability call and the install test overwrites rc with OK
    nd = ctx.fn("ldb_new_db", DB)
    ordered_before_success(ctx, "T1-manifest-durable", "new_db", nd,
                           [lambda e: is_call(e, "ldb_writer_add_record"), _is_sync_of("file"), _is_close_of("file"),
                            lambda e: is_call(e, "ldb_set_current_file")],
                           "a new database writes, syncs, closes its MANIFEST, then publishes CURRENT")
    # stores to log_number of the version set: only apply/recover/init
    owners = sorted({f.name for f, b, i, e in stores_of_field_in_program(ctx.P, "ldb_versions_s", "log_number")})
    ctx.check(owners == ["ldb_versions_apply", "ldb_versions_init", "ldb_versions_recover"],
              "T5-lognumber-writers", "vset->log_number", "<program>", VS,
              "vset->log_number is written only by init/apply/recover",
              "vset->log_number is written by %s" % owners)


def never_sync_after_current(ctx, va):
    """CURRENT is switched only after the MANIFEST record is durable."""
    always_before(ctx, "T1-manifest-current-order", "sync<current", va,
                  _is_sync_of("vset->descriptor_file"), lambda e: is_call(e, "ldb_set_current_file"),
                  "CURRENT is switched only after the MANIFEST was synced")


def check_gc(ctx):
    P = ctx.P
    ro = ctx.fn("ldb_remove_obsolete_files", DB)
    gc = one_call(ctx, ro, "ldb_get_children")[0]
    check_guard(ctx, "T2-gc-bg-error", "listing", ro, gc, [[("==", "db->bg_error", "0")]],
                "listing the directory for garbage collection")
    for b, i, e in one_call(ctx, ro, "ldb_remove_file"):
        ctx.ok("T5-gc-site", "remove", site(ro, e), "removal site inside the garbage collector")
    op = ctx.fn("ldb_open", DB)
    ev = one_call(ctx, op, "ldb_remove_obsolete_files")[0]
    check_guard(ctx, "T2-gc-after-durable", "ldb_open", op, ev, [[("==", "rc", "0")]],
                "garbage collection in ldb_open")
    cm = ctx.fn("ldb_compact_memtable", DB)
    ev = one_call(ctx, cm, "ldb_remove_obsolete_files")[0]
    check_guard(ctx, "T2-gc-after-durable", "ldb_compact_memtable", cm, ev, [[("==", "rc", "0")]],
                "garbage collection after a memtable flush")
    call_ok_dominates(ctx, "T2-gc-after-durable", "ldb_compact_memtable:apply", cm, ev, "ldb_versions_apply",
                      "garbage collection after a memtable flush")
    bc = ctx.fn("ldb_background_compaction", DB)

    def step(q, e, st, b, i):
        if q == BAD:
            return q
        if is_call(e, "ldb_record_background_error"):
            return 1
        if is_call(e, "ldb_remove_obsolete_files") and q == 0 and ("z", "rc") not in st:
            return BAD
        return q
    check_automaton(ctx, "T2-gc-after-durable", "ldb_background_compaction", bc, 0, step, None,
                    "garbage collection runs only after success or after the error was latched")
    callers = sorted({f.name for f, b, i, e in P.callers_of("ldb_remove_obsolete_files")})
    ctx.check(callers == ["ldb_background_compaction", "ldb_compact_memtable", "ldb_open"],
              "T5-gc-callers", "callers", "<program>", DB, "GC is called from %s" % callers,
              "GC is called from %s" % callers)


def check_who_may(ctx):
    P = ctx.P
    for callee, table in (("ldb_remove_file", MAY_REMOVE), ("ldb_rename_file", MAY_RENAME)):
        callers = P.callers_of(callee)
        ctx.require(len(callers) >= 3, "callers of %s not found" % callee)
        for f, b, i, e in callers:
            ctx.check(f.name in table, "T5-who-may-" + callee[4:], f.name, f.name, site(f, e),
                      "%s: %s" % (f.name, table.get(f.name)),
                      "%s calls %s but is not in the table of functions allowed to remove/rename database files"
                      % (f.name, callee))
    # libc unlink/rename only below the env wrappers
    for libc, allowed in (("unlink", {"ldb_remove_file", "ldb_copy_file"}), ("rename", {"ldb_rename_file"}),
                          ("rmdir", {"ldb_remove_dir"}), ("truncate", set()), ("ftruncate", set())):
        for f, b, i, e in P.callers_of(libc):
            ctx.check(f.name in allowed, "T5-libc-" + libc, f.name, f.name, site(f, e),
                      "%s only inside the env wrapper" % libc, "%s() called directly from %s" % (libc, f.name))
    # failure-path-only removals of own outputs
    for fn_name, file in (("ldb_new_db", DB), ("ldb_versions_apply", VS), ("ldb_set_current_file", "src/filename.c"),
                          ("ldb_write_file", "src/util/env.c")):
        f = ctx.fn(fn_name, file)
        for ev in one_call(ctx, f, "ldb_remove_file"):
            check_guard(ctx, "T2-remove-on-failure-only", fn_name, f, ev, [[("!=", "rc", "0")]],
                        "removing the function's own output")
    bt = ctx.fn("ldb_build_table", "src/builder.c")
    ev = one_call(ctx, bt, "ldb_remove_file")[0]
    # reachable only across an edge that establishes rc != OK or file_size <= 0
    must_cross_edge_before(ctx, "T2-remove-on-failure-only", "ldb_build_table", bt,
                           lambda c, p: truth_of(c, p, "rc") is True or cmp_edge(c, p, "meta->file_size", "<=", 0),
                           lambda e: is_call(e, "ldb_remove_file"),
                           "a successfully built non-empty table is not removed",
                           reset=lambda e: e["e"] == "asg" and key(e["lhs"]) in ("rc", "meta->file_size"))


def _cmp_true(c, p, k, op, v):
    c = strip_casts(c)
    if isinstance(c, dict) and c.get("k") == "bin" and c.get("op") in ("==", "!="):
        if key(c["l"]) == k and const_val(c["r"]) == v:
            return p if c["op"] == op else (not p)
    return False


def _gt_zero(c, p, k):
    c = strip_casts(c)
    if isinstance(c, dict) and c.get("k") == "bin" and c.get("op") == ">" and key(c["l"]) == k and const_val(c["r"]) == 0:
        return p
    return False


def check(ctx):
    check_env_read(ctx)
    check_write(ctx)
    check_group(ctx)
    check_env(ctx)
    check_tables(ctx)
    check_manifest(ctx)
    c17.check_current(ctx)
    check_gc(ctx)
    check_who_may(ctx)
    from . import c13
    c13.check_gc(ctx)          # a log whose writes are not yet in a durable table is never collected
