"""C12 I/O failures are reported and never cost acknowledged data.

Decided: (T4) no status of the storage layer and no parse result is dropped
anywhere in the library (discarded, cast to void, or stored into a local
that is dead afterwards), except a table of (caller, callee) pairs with a
reason; (T1) every failing path of the background work latches the error;
the latch stops further background work and stalls writers; (T1) outputs of
a failed build are removed / not installed; (T2) abort() is reachable only
for the listed non-I/O causes.
Not decided: the contents after reopen.
"""
from ..paths import xgraph
from ..program import const_val, key, strip_casts
from ..rules import (DEAD, BAD, always_before, argkey, check_automaton, check_guard, find_calls, fmt_atoms, holds,
                     is_call, must_pass_before_success, need_call, one_call, ret_may_be_zero, site, truth_of)
from .. import status
from . import c09

EXPLANATION = ("Whole-library status discipline (liveness-based dropped-result analysis over every call of ~80 "
               "status functions and ~40 parse functions), error-latch must-pass automata on the background paths, "
               "failed-output cleanup automata, and a classification of every abort() site by its dominating guard.")
RULE = ("obligation = one call site of a status/parse function, one latch / cleanup path rule, one abort site; "
        "non-trivial = the call site was classified by liveness or a path was walked")
MIN_OBLIGATIONS = 350
DB = "src/db_impl.c"

# (caller, callee) -> reason the dropped status is acceptable (DESIGN Appendix D; each confirmed by reading)
DROP_OK = {
    ("ldb_sanitize_options", "ldb_create_dir"): "directory may already exist; info log is best effort",
    ("ldb_sanitize_options", "ldb_rename_file"): "LOG rotation is best effort",
    ("ldb_recover", "ldb_create_dir"): "directory may already exist; creation is committed by the MANIFEST",
    ("ldb_remove_obsolete_files", "ldb_remove_file"): "garbage collection is best effort and retried",
    ("ldb_new_db", "ldb_remove_file"): "cleanup of own output on a path that already returns an error",
    ("ldb_versions_apply", "ldb_remove_file"): "cleanup of own output on a path that already returns an error",
    ("ldb_set_current_file", "ldb_remove_file"): "cleanup of own temp file on a path that already returns an error",
    ("ldb_write_file", "ldb_remove_file"): "cleanup of own output on a path that already returns an error",
    ("ldb_build_table", "ldb_remove_file"): "cleanup of a failed / empty table (status already decided)",
    ("ldb_backup_inner", "ldb_remove_file"): "cleanup inside the backup directory after a failure / lock file",
    ("ldb_backup_inner", "ldb_remove_dir"): "cleanup of the backup directory after a failure",
    ("ldb_backup_inner", "ldb_unlock_file"): "lock of the temporary backup directory",
    ("ldb_copy", "ldb_unlock_file"): "result of the copy already decided",
    ("ldb_destroy", "ldb_unlock_file"): "state is already gone",
    ("ldb_destroy", "ldb_remove_file"): "LOCK file removal after everything else; directory removal decides",
    ("ldb_destroy", "ldb_remove_dir"): "directory may contain foreign files",
    ("ldb_destroy_internal", "ldb_unlock_file"): "close has no status",
    ("ldb_writer_add_record", "ldb_wfile_append"): "block trailer padding (< 7 bytes) after a flush: only copied into the empty buffer, cannot reach write(2)",
    ("ldb_rfile_destroy", "ldb_rfile_close"): "read-only descriptor",
    ("ldb_compact", "ldb_test_compact_memtable"): "void API; a flush error is latched in bg_error and surfaces on later writes",
    ("ldb_slice_decode", "ldb_varint32_read"): "length prefix of trusted in-memory memtable entries (asserted in debug builds)",
    ("archive_file", "ldb_create_dir"): "repair: lost/ may already exist",
    ("repair_table", "ldb_remove_file"): "repair: cleanup of own temporary copy",
    ("write_descriptor", "ldb_remove_file"): "repair: cleanup of own temporary descriptor / stale MANIFESTs",
    ("scan_table", "ldb_table_filename"): "repair: same name was built successfully a few lines above",
    ("scan_table", "ldb_sstable_filename"): "repair: same name was built successfully a few lines above",
}

# abort() causes that are not I/O or input: the atom that must dominate the call
ABORT_CAUSES = [
    ("allocation failure", lambda a: a[0] == "==" and a[2] == "0" and a[1] in ("ptr", "node", "z", "(*errptr)")),
    ("pthread primitive failed", lambda a: a[0] == "!=" and a[1].startswith("pthread_") and a[2] == "0"),
    ("clock failed", lambda a: a[0] == "!=" and a[1].startswith("gettimeofday(")),
    ("file-name capacity (dbname length is validated at the API)",
     lambda a: a[0] == "==" and a[2] == "0" and (a[1].startswith("ldb_join(") or a[1].startswith("ldb_dirname(") or
                                                  (a[1].startswith("ldb_") and "_filename(" in a[1].split("#")[0][:40]))),
    ("empty queue (caller holds a non-empty queue)", lambda a: a[0] == "==" and a[2] == "0" and a[1] in ("work", "writer")),
    ("block larger than the snappy format allows (own data)", lambda a: a[0] == "==" and a[1].startswith("ldb_snappy_encode_size(")),
]
ABORT_EXEMPT = {
    ("ldb_assert_fail", "src/util/internal.c"): "the assertion handler itself (assertions are compiled out of the shipped build)",
    ("ldb_c_writebatch_iterate", "src/c.c"): "C-API shim: iterating a batch the caller built through the API",
}


def check_status_discipline(ctx):
    P = ctx.P
    S = status.status_functions(P)
    PF = status.parse_functions(P)
    ctx.require(len(S) >= 70 and len(PF) >= 30, "status domain shrank: %d status / %d parse functions" % (len(S), len(PF)))
    ctx.note("status functions: %d, parse functions: %d" % (len(S), len(PF)))
    names = S | PF
    n = 0
    used = set()
    for f in P.all_functions:
        xg = None
        calls = [(b, i, e) for (b, i, e) in f.events("call") if status._name(e) in names]
        if not calls:
            continue
        ctx.analysed_functions.add((f.file, f.name))
        xg = xgraph(P, f)
        dropped = {e["id"]: how for (b, i, e, how) in status.dropped_results(P, f, names, xg)}
        for b, i, e in calls:
            n += 1
            cal = status._name(e)
            inst = "%s>%s@%s" % (f.name, cal, e["l"].split(":")[1])
            if e["id"] not in dropped:
                ctx.ok("T4-status-consumed", inst, site(f, e), "result used (%s)" % e.get("use"))
                continue
            why = DROP_OK.get((f.name, cal))
            if why is not None:
                used.add((f.name, cal))
                ctx.ok("T4-status-drop-listed", inst, site(f, e), "listed exception: " + why, False)
                continue
            kind = "status" if cal in S else "parse result"
            ctx.bad("T4-status-consumed", inst, f.name, site(f, e),
                    "%s of %s is dropped in %s: %s" % (kind, cal, f.name, dropped[e["id"]]), subject="%s>%s" % (f.name, cal))
    ctx.require(n >= 300, "status discipline: only %d call sites found" % n)
    stale = sorted(set(DROP_OK) - used)
    for k in stale:
        ctx.note("exception row no longer used: %s>%s" % k)


def _latched_or_ok(ctx, fn, rule, inst, what, status_var="rc", callee=None):
    """At every exit of fn: status_var is OK, or ldb_record_background_error was
    called after the failure."""
    ids = set()
    if callee:
        ids = {e["id"] for b, i, e in fn.events("call") if e.get("f") == callee}

    def step(q, e, st, b, i):
        if q == BAD:
            return q
        if is_call(e, "ldb_record_background_error"):
            return 1
        if callee and e["e"] == "call" and e.get("id") in ids:
            return 0          # a new attempt: an earlier latch does not cover it
        if e["e"] == "ret" and q == 0:
            if callee:
                if any(("cnz", c) in st for c in ids):
                    return BAD
            elif ("z", status_var) not in st:
                return BAD
        return q
    check_automaton(ctx, rule, inst, fn, 0, step, None, what, keep_calls=(callee,) if callee else (),
                    keep_vars=(status_var,))


def check_latch(ctx):
    P = ctx.P
    cm = ctx.fn("ldb_compact_memtable", DB)
    _latched_or_ok(ctx, cm, "T1-error-latch", "compact_memtable", "a failed memtable flush latches bg_error")
    bc = ctx.fn("ldb_background_compaction", DB)
    _latched_or_ok(ctx, bc, "T1-error-latch", "background_compaction", "a failed compaction / trivial move latches bg_error")
    dw = ctx.fn("ldb_do_compaction_work", DB)

    def step(q, e, st, b, i):
        if q == BAD:
            return q
        if is_call(e, "ldb_record_background_error"):
            return 1
        if e["e"] == "ret" and q == 0 and not ret_may_be_zero(e, st):
            return BAD
        return q
    check_automaton(ctx, "T1-error-latch", "do_compaction_work", dw, 0, step, None,
                    "a compaction that returns an error has latched it")
    w = ctx.fn("ldb_write", DB)
    _latched_or_ok(ctx, w, "T1-error-latch", "write:sync-failure", "a failed log sync latches bg_error (log state unknown)",
                   callee="ldb_wfile_sync")
    mr = ctx.fn("ldb_make_room_for_write", DB)
    _latched_or_ok(ctx, mr, "T1-error-latch", "make_room:close-failure", "a failed close of the old log latches bg_error",
                   callee="ldb_wfile_close")
    rb = ctx.fn("ldb_record_background_error", DB)
    st = [(b, i, e) for (b, i, e) in rb.events("asg") if key(e["lhs"]) == "db->bg_error"]
    ctx.check(len(st) == 1 and key(st[0][2]["rhs"]) == "status", "T1-error-latch", "latch-store", rb.name, rb.loc,
              "the latch keeps the first error", "bg_error latch store changed")
    if st:
        check_guard(ctx, "T1-error-latch", "first-error-wins", rb, st[0], [[("==", "db->bg_error", "0")]], "latching")
    # the latch is never cleared
    from ..rules import stores_of_field_in_program
    owners = sorted({f.name for f, b, i, e in stores_of_field_in_program(P, "ldb_s", "bg_error")})
    ctx.check(owners == ["ldb_create", "ldb_record_background_error"], "T5-error-latch", "writers", "<program>", DB,
              "bg_error is written only at creation and by the latch", "bg_error is written by %s" % owners)
    # the stall loop yields the latched error first
    g = xgraph(P, mr)
    for b, i, e in mr.events("asg"):
        if key(e["lhs"]) == "rc" and key(e["rhs"]) == "db->bg_error":
            ctx.check(holds(g.must_at(b, i), ("!=", "db->bg_error", "0")), "T2-error-latch", "stall-yields-error", mr.name,
                      site(mr, e), "writers get the latched error", "stall loop error path changed")
    c09.check_exits(ctx)


def check_failed_outputs(ctx):
    P = ctx.P
    bt = ctx.fn("ldb_build_table", "src/builder.c")

    def step(q, e, st, b, i):
        # 0 no file, 1 file created, 2 removed
        if q == BAD:
            return q
        if q == 0 and any(f[0] == "cz" for f in st):
            q = 1
        if q == 1 and is_call(e, "ldb_remove_file"):
            return 2
        if e["e"] == "ret" and q == 1 and not ret_may_be_zero(e, st):
            return BAD
        return q
    check_automaton(ctx, "T1-failed-output-removed", "build_table", bt, 0, step, None,
                    "a table file whose build failed is removed", keep_calls=("ldb_truncfile_create",))
    wf = ctx.fn("ldb_write_file", "src/util/env.c")
    check_automaton(ctx, "T1-failed-output-removed", "write_file", wf, 0, step, None,
                    "a file whose write failed is removed", keep_calls=("ldb_truncfile_create",))
    va = ctx.fn("ldb_versions_apply", "src/version_set.c")
    dv = need_call(ctx, "T1-failed-output-removed", "apply:version-destroyed", va, "ldb_version_destroy",
                   "an un-installed version is destroyed")
    for ev in dv:
        check_guard(ctx, "T1-failed-output-removed", "apply:destroy-only-on-failure", va, ev, [[("!=", "rc", "0")]],
                    "destroying the new version")
    must_pass_before_success(ctx, "T1-failed-output-removed", "apply:version-not-leaked", va, lambda e: is_call(e, "ldb_version_create"),
                             lambda e: is_call(e, ("ldb_version_destroy", "ldb_versions_append_version")),
                             "the freshly built version is installed or destroyed on every exit", success=lambda e, st: True)
    def edge_va(q, lit):
        # idiom checked under C02 (T2-manifest-name-flag): fname[0] != 0 once the MANIFEST was created
        if q == 1 and lit is not None and lit[0] not in ("case", "default") and truth_of(lit[0], lit[1], "fname[0]") is False:
            return DEAD
        return q
    check_automaton(ctx, "T1-failed-output-removed", "apply:manifest-removed", va, 0, step, edge_va,
                    "a new MANIFEST whose installation failed is removed", keep_calls=("ldb_truncfile_create",))
    nd = ctx.fn("ldb_new_db", DB)
    check_automaton(ctx, "T1-failed-output-removed", "new_db", nd, 0, step, None,
                    "a MANIFEST of a failed database creation is removed", keep_calls=("ldb_truncfile_create",))
    fl = ctx.fn("ldb_wfile_flush", "src/util/env_unix_impl.h")
    must_pass_before_success(ctx, "T1-flush-resets-buffer", "pos=0", fl, None,
                             lambda e: e["e"] == "asg" and key(e["lhs"]) == "file->pos" and const_val(e["rhs"]) == 0,
                             "the user-space buffer is emptied on every return (no double write after an error)",
                             success=lambda e, st: True)
    # compaction: failed outputs are not installed, their builder is abandoned
    fc = ctx.fn("ldb_finish_compaction_output_file", DB)
    ab = need_call(ctx, "T1-failed-output-removed", "compaction:abandon", fc, "ldb_tablegen_abandon",
                   "an output whose input iterator failed is abandoned")
    for ev in ab:
        check_guard(ctx, "T1-failed-output-removed", "compaction:abandon-on-error", fc, ev, [[("!=", "rc", "0")]], "abandoning the builder")


def check_read_errors(ctx):
    """A failed table read is reported by the lookup, not turned into not-found."""
    P = ctx.P
    gm = ctx.fn("getstate_match", "src/version_set.c")
    tg = one_call(ctx, gm, "ldb_tables_get")[0][2]
    ctx.check(tg.get("use") in ("assign", "init"), "T4-read-error-surfaces", "status-kept", gm.name, site(gm, tg),
              "the table lookup status is stored", "the table lookup status is dropped")
    must_pass_before_success(ctx, "T1-read-error-surfaces", "error-marks-found", gm,
                             lambda e: is_call(e, "ldb_tables_get"),
                             lambda e: e["e"] == "asg" and key(e["lhs"]) == "state->found" and const_val(e["rhs"]) == 1,
                             "a failed table read ends the search as found-with-error",
                             success=lambda e, st: True,
                             edge_pass=lambda lit: truth_of(lit[0], lit[1], "state->status") is False or
                             _saver_is(lit, (0, 2)))
    g = xgraph(P, gm)
    for b, i, e in gm.events("ret"):
        atoms = g.must_at(b, i)
        if holds(atoms, ("!=", "state->status", "0")):
            ctx.check(const_val(e.get("x")) == 0, "T1-read-error-surfaces", "error-stops-search", gm.name, site(gm, e),
                      "a read error stops the search", "the search continues after a read error")
    vg = ctx.fn("ldb_version_get", "src/version_set.c")
    r = [key(e.get("x")) for b, i, e in vg.events("ret") if not e.get("synthetic")]
    ctx.check(r == ["(state.found ? state.status : 30001)"], "T1-read-error-surfaces", "result", vg.name, vg.loc,
              "the recorded status is what ldb_version_get returns", "ldb_version_get returns %s" % r)
    # iterator status aggregation: children statuses are consulted
    for fn_name, file, needle in (("ldb_twoiter_status", "src/table/two_level_iterator.c", ("index_iter", "data_iter", "status")),
                                  ("ldb_mergeiter_status", "src/table/merger.c", ("children",)),
                                  ("ldb_dbiter_status", "src/db_iter.c", ("iter->status", "iter->iter"))):
        f = ctx.fn(fn_name, file)
        txt = " ".join(key(e.get("x")) for b, i, e in f.events("ret") if e.get("x") is not None) + " " + \
            " ".join(key(e.get("fp") or {}) + " " + " ".join(key(a) for a in e.get("a", [])) for b, i, e in f.events("call"))
        ctx.check(all(n in txt for n in needle), "T4-iterator-status-aggregates", fn_name, f.name, f.loc,
                  "%s reports its children's statuses" % fn_name, "%s no longer consults %s" % (fn_name, needle))


def _saver_is(lit, values):
    if lit[0] != "case":
        return False
    return key(lit[1]) == "state->saver.state" and const_val(lit[2]) in values


OVERWRITE_OK = {
    ("ldb_destroy", "status"): "first error wins: `if (rc == LDB_OK && status != LDB_OK) rc = status` deliberately ignores later "
                               "removal failures once one was recorded",
}


def _overwrite_is_an_error(P, f, where):
    """The assignment at `where` stores the result of a status getter that the
    dominating branch has just seen to be non-OK: an error replaces whatever
    was there, which loses no failure."""
    for b, i, e in f.events("asg"):
        if e["l"] != where:
            continue
        r = strip_casts(e["rhs"])
        if not (isinstance(r, dict) and r.get("k") == "call"):
            return False
        nm = status._name(r)
        atoms = xgraph(P, f).must_at(b, i) or ()
        for a in atoms:
            if a[0] == "!=" and a[2] == "0" and nm and (a[1].startswith(nm + "(") or (nm == "ldb_iter_status" and "->status)(" in a[1])):
                return True
        return False
    return False


def check_status_not_overwritten(ctx):
    """A status stored in a local is looked at before that local is assigned
    again, on every path: otherwise an error is replaced by a later success
    (a loop that keeps only the last child's status, a cleanup call whose
    result lands in the variable that carried the failure)."""
    P = ctx.P
    S = set(status.status_functions(P)) | {"ldb_iter_status"} | \
        {f.name for f in P.all_functions if f.name.endswith("_status") and f.ret.startswith("int")}
    n = 0
    for f in P.all_functions:
        sites = [(b, i, e) for (b, i, e) in f.events("asg") if isinstance(strip_casts(e["rhs"]), dict) and
                 strip_casts(e["rhs"]).get("k") == "call" and status._name(strip_casts(e["rhs"])) in S]
        if not sites:
            continue
        lost = {e["l"]: where for (b, i, e, where) in status.overwritten_unread(P, f, S)}
        for b, i, e in sites:
            l = strip_casts(e["lhs"])
            if not (isinstance(l, dict) and l.get("k") == "var" and l.get("kind") == "local" and e["op"] == "="):
                continue
            n += 1
            inst = "%s:%s@%s" % (f.name, l["n"], e["l"].split(":")[1])
            if e["l"] in lost and _overwrite_is_an_error(P, f, lost[e["l"]]):
                ctx.ok("T4-status-not-overwritten", inst, site(f, e), "only ever replaced by another error (the overwrite is guarded by `!= LDB_OK`)")
                continue
            if e["l"] in lost and (f.name, l["n"]) not in OVERWRITE_OK:
                ctx.bad("T4-status-not-overwritten", inst, f.name, site(f, e),
                        "the status of %s stored in `%s` can be overwritten at %s before anything looked at it" %
                        (status._name(strip_casts(e["rhs"])), l["n"], lost[e["l"]]), subject="%s:%s" % (f.name, l["n"]))
            else:
                ctx.ok("T4-status-not-overwritten", inst, site(f, e),
                       "read before reassigned" if e["l"] not in lost else "listed: " + OVERWRITE_OK[(f.name, l["n"])], e["l"] not in lost)
    ctx.require(n >= 120, "only %d status assignments found" % n)


def check_aborts(ctx):
    P = ctx.P
    S = status.status_functions(P)
    PF = status.parse_functions(P)
    n = 0
    for f in P.all_functions:
        for b, i, e in f.events("call"):
            if e.get("f") not in ("abort", "exit", "_exit", "_Exit", "raise", "kill"):
                continue
            n += 1
            inst = "%s@%s" % (f.name, e["l"].split(":")[1])
            if (f.name, f.file) in ABORT_EXEMPT:
                ctx.ok("T2-no-abort-on-io", inst, site(f, e), "listed: " + ABORT_EXEMPT[(f.name, f.file)], False)
                continue
            atoms = xgraph(P, f).must_at(b, i)
            if atoms is None:
                ctx.ok("T2-no-abort-on-io", inst, site(f, e), "unreachable in this configuration", False)
                continue
            cause = None
            for name, pred in ABORT_CAUSES:
                if any(pred(a) for a in atoms):
                    cause = name
                    break
            if cause is None:
                # `else abort()` after every enumerator of an enum was tested: the same dead default that clang
                # prunes from a switch over that enum
                excluded = {}
                for a in atoms:
                    if a[0] == "!=" and a[2].lstrip("-").isdigit():
                        excluded.setdefault(a[1], set()).add(int(a[2]))
                enum_sets = {}
                for en, info in P.enums.items():
                    enum_sets.setdefault(info.get("enum"), set()).add(int(info["v"]))
                for var, vals in excluded.items():
                    if any(vs and vs <= vals for vs in enum_sets.values() if len(vs) >= 2 and vs == vals):
                        cause = "value outside its enumeration (every enumerator was excluded)"
            bad_cause = None
            for a in atoms:
                nm = a[1].split("(")[0]
                if a[1].endswith(tuple("#%d" % k for k in range(0, 10))) or "#" in a[1]:
                    if nm in S and a[0] == "!=":
                        bad_cause = "failure of %s" % nm
                    if nm in PF and a[0] == "==" and nm not in ("ldb_join", "ldb_dirname") and "_filename" not in nm:
                        bad_cause = "rejected input (%s)" % nm
            ctx.check(cause is not None and bad_cause is None, "T2-no-abort-on-io", inst, f.name, site(f, e),
                      "abort only on: %s" % cause,
                      "abort() reachable on %s; facts: %s" % (bad_cause or "an unclassified condition", fmt_atoms(atoms)),
                      subject=f.name)
    ctx.require(n >= 35, "only %d abort sites found" % n)


def check(ctx):
    from . import c04 as _c04b
    _c04b.check_scratch_reset(ctx)   # a write that was reported as failed is not applied by a later group
    from . import c17 as _c17
    _c17.check_current(ctx)        # a failure is not reported after the CURRENT switch took effect (the caller would delete the live MANIFEST)
    check_status_not_overwritten(ctx)
    from . import tablefmt as _tf2
    _tf2.check_twoiter_status(ctx)   # an error met while skipping blocks stays visible
    from . import c02 as _c02
    _c02.check_env_read(ctx)      # a failed read is reported
    check_status_discipline(ctx)
    check_latch(ctx)
    check_failed_outputs(ctx)
    check_read_errors(ctx)
    from . import tablefmt
    tablefmt.check_iterator_statuses(ctx)     # a failed table read during compaction / lookup must not end as success
    check_aborts(ctx)
    from . import c05, c02
    c02.check_tables(ctx)         # a failed table write / sync / close is not overwritten by a later success
    c05.check_log_file(ctx)       # only a damaged log record may be forgiven during replay, never a failed flush
