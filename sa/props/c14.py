"""C14 The reported level structure stays well-formed.

Decided (structural necessary conditions only): the version builder merges
added and pre-existing files in ascending smallest-key order (comparator sign
analysis, ties by number) and keeps every file that was not deleted; the
bounds and size recorded for a flushed / compacted table are those of the
entries actually written (smallest = first key, largest = last key, size =
builder size after finish); outputs enter exactly level+1, flushes the level
chosen without overlap, trivial moves only without overlap, inputs of both
levels are retired in the installing edit (shared with C01); overlap tests
treat only level 0 as overlapping; the MANIFEST snapshot re-emits every file
at its own level (shared with C17).
Not decided: sortedness / disjointness / recency of any concrete layout (they are
invariants over runtime metadata; the in-code checks are compiled out).
"""
from ..build import AnalysisBroken
from ..paths import xgraph
from ..program import const_val, key, strip_casts
from ..rules import (Unsupported, always_before, argkey, cfg_sign_triple, find_calls, fmt_atoms, holds, is_call,
                     must_pass_before_success, never_after, one_call, site, CALL)
from . import c01, c17

EXPLANATION = ("Comparator ordering analysis of the builder's file order, guard/ordering rules for the merge in "
               "builder_save_to, provenance of the recorded bounds and sizes of new tables, and the level arithmetic "
               "of flush / compaction / trivial-move edits.")
RULE = "obligation = one ordering / provenance / level-arithmetic instance; non-trivial = evaluated an ordering or walked a path"
MIN_OBLIGATIONS = 25
VS = "src/version_set.c"
DB = "src/db_impl.c"


def check_builder(ctx):
    P = ctx.P
    bs = ctx.fn("by_smallest_key", VS)
    try:
        tr = cfg_sign_triple(bs, "f1->number", "f2->number", tie_vars=("r",))
    except Unsupported as u:
        raise AnalysisBroken("by_smallest_key: %s" % u)
    ctx.check(tr == (-1, 0, 1), "T8-file-order", "tie-by-number", bs.name, bs.loc, "equal smallest keys are ordered by ascending file number",
              "tie-break sign triple is %s" % (tr,))
    d = [e for b, i, e in bs.events("decl") if e["n"] == "r"]
    ctx.check(bool(d) and "(&f1->smallest), (&f2->smallest)" in key(d[0].get("init")), "T8-file-order", "by-smallest", bs.name, bs.loc,
              "files are ordered by their smallest key", "primary file order is %s" % (key(d[0].get("init")) if d else None))
    rets = [key(e.get("x")) for b, i, e in bs.events("ret") if not e.get("synthetic")]
    ctx.check("r" in rets, "T8-file-order", "primary-result-returned", bs.name, bs.loc, "a decisive key comparison is returned as is",
              "by_smallest_key returns %s" % rets)
    sv = ctx.fn("builder_save_to", VS)
    g = xgraph(P, sv)
    adds = find_calls(sv, "builder_maybe_add_file")
    ctx.require(len(adds) == 3, "builder_save_to: expected three add sites, found %d" % len(adds))
    kinds = sorted(argkey(e, 3) for b, i, e in adds)
    ctx.check(kinds == ["added_file", "base_file", "base_file"], "T1-builder-merge", "sites", sv.name, sv.loc,
              "base files before each added file, the added file, then the remaining base files", "merge add sites changed: %s" % kinds)
    # a base file is emitted before an added file only while it sorts before it
    for b, i, e in adds:
        if argkey(e, 3) != "base_file":
            continue
        atoms = g.must_at(b, i)
        if holds(atoms, ("!=", CALL("ldb_rb_iter_valid"), "0")) or any("added_file" in a[1] for a in (atoms or ())):
            ctx.check(holds(atoms, ("<", "re:by_smallest_key\\(.*base_file, added_file\\)#\\d+", "0")), "T1-builder-merge", "base-before-added",
                      sv.name, site(sv, e), "a pre-existing file precedes an added one only if it sorts before it",
                      "merge order guard changed; facts %s" % fmt_atoms(atoms))
    lv = [b for b in sv.blocks.values() if b.term is not None and "cond" in b.term and key(b.term["cond"]) == "(level < 7)"]
    ctx.check(len(lv) == 1, "T1-builder-merge", "all-levels", sv.name, sv.loc, "every level is rebuilt", "level loop bound changed")
    ma = ctx.fn("builder_maybe_add_file", VS)
    gm = xgraph(P, ma)
    ps = one_call(ctx, ma, "ldb_vector_push")[0]
    atoms = gm.must_at(ps[0], ps[1])
    ctx.check(holds(atoms, ("==", "re:.*rb_set64_has\\(.*deleted_files.*f->number\\)#\\d+", "0")) and argkey(ps[2], 1) == "f", "T1-builder-merge",
              "kept-iff-not-deleted", ma.name, site(ma, ps[2]), "a file is carried over exactly if the edit did not delete it",
              "carry-over guard changed; facts %s" % fmt_atoms(atoms))
    ap = ctx.fn("builder_apply", VS)
    st = [argkey(e, 0) for b, i, e in find_calls(ap, ("ldb_rb_set64_put", "rb_set64_put", "ldb_rb_tree_put", "rb_set_put", "ldb_rb_set_put"))]
    ctx.check(sorted(st) == ["&state->added_files", "&state->deleted_files"], "T1-builder-merge", "apply-sets", ap.name, ap.loc,
              "an edit's deletions and additions go to the per-level sets", "builder_apply records into %s" % st)
    lvls = [key(e.get("init")) for b, i, e in ap.events("decl") if e["n"] == "state"]
    ctx.check(sorted(lvls) == ["(&b->levels[entry->level])", "(&b->levels[entry->level])"], "T1-builder-merge", "apply-level", ap.name, ap.loc,
              "files are filed under the level named in the edit", "builder_apply levels: %s" % lvls)


def check_bounds(ctx):
    P = ctx.P
    bt = ctx.fn("ldb_build_table", "src/builder.c")
    cps = [(argkey(e, 0), argkey(e, 1), e) for b, i, e in find_calls(bt, "ldb_ikey_copy")]
    ctx.check(sorted((a, k) for a, k, e in cps) == [("&meta->largest", "&key"), ("&meta->smallest", "&key")], "T6-table-bounds", "build_table:copies",
              bt.name, bt.loc, "smallest and largest are copied from iterated keys", "bound copies changed: %s" % [(a, k) for a, k, e in cps])
    never_after(ctx, "T6-table-bounds", "build_table:smallest-is-first", bt, lambda e: is_call(e, "ldb_tablegen_add"),
                lambda e: is_call(e, "ldb_ikey_copy") and argkey(e, 0) == "&meta->smallest", "smallest is taken before the first entry is added")
    never_after(ctx, "T6-table-bounds", "build_table:largest-is-last", bt, lambda e: is_call(e, "ldb_ikey_copy") and argkey(e, 0) == "&meta->largest",
                lambda e: is_call(e, "ldb_tablegen_add"), "largest is taken after the last entry was added")
    fs = [(b, i, e) for (b, i, e) in bt.events("asg") if key(e["lhs"]) == "meta->file_size" and const_val(e["rhs"]) is None]
    ctx.check(len(fs) == 1 and key(fs[0][2]["rhs"]) == "ldb_tablegen_size(builder)", "T6-table-bounds", "build_table:size", bt.name, bt.loc,
              "file_size is the builder's size", "file_size recorded from %s" % [key(x[2]["rhs"]) for x in fs])
    if fs:
        always_before(ctx, "T6-table-bounds", "build_table:size-after-finish", bt, lambda e: is_call(e, "ldb_tablegen_finish"),
                      lambda e: e["e"] == "asg" and key(e["lhs"]) == "meta->file_size" and const_val(e["rhs"]) is None,
                      "the size is read after the table was finished")
    dw = ctx.fn("ldb_do_compaction_work", DB)
    g = xgraph(P, dw)
    cps = [(b, i, e) for (b, i, e) in find_calls(dw, "ldb_ikey_copy")]
    sm = [x for x in cps if "smallest" in (argkey(x[2], 0) or "")]
    lg = [x for x in cps if "largest" in (argkey(x[2], 0) or "")]
    ctx.check(len(sm) == 1 and len(lg) == 1 and argkey(sm[0][2], 1) == "&key" and argkey(lg[0][2], 1) == "&key", "T6-table-bounds",
              "compaction:copies", dw.name, dw.loc, "output bounds are copied from the emitted keys", "compaction bound copies changed")
    if sm:
        ctx.check(holds(g.must_at(sm[0][0], sm[0][1]), ("==", CALL("ldb_tablegen_entries"), "0")), "T6-table-bounds", "compaction:smallest-is-first",
                  dw.name, site(dw, sm[0][2]), "smallest is set when the output is still empty", "smallest guard changed")
    if lg:
        must_pass_before_success(ctx, "T6-table-bounds", "compaction:largest-every-add", dw,
                                 lambda e: is_call(e, "ldb_ikey_copy") and "largest" in (argkey(e, 0) or ""),
                                 lambda e: is_call(e, "ldb_tablegen_add"), "largest is updated for every emitted entry",
                                 success=lambda e, st: False)
        always_before(ctx, "T6-table-bounds", "compaction:largest-before-add", dw,
                      lambda e: is_call(e, "ldb_ikey_copy") and "largest" in (argkey(e, 0) or ""), lambda e: is_call(e, "ldb_tablegen_add"),
                      "every emitted entry updated largest first")
    fc = ctx.fn("ldb_finish_compaction_output_file", DB)
    cb = [key(e["rhs"]) for b, i, e in fc.events("asg") if key(e["lhs"]) == "current_bytes"]
    st = [key(e["rhs"]) for b, i, e in fc.events("asg") if key(e["lhs"]).endswith("->file_size")]
    ctx.check(cb == ["ldb_tablegen_size(state->builder)"] and st == ["current_bytes"], "T6-table-bounds", "compaction:size", fc.name, fc.loc,
              "output size is the builder's size", "output size recorded from %s / %s" % (cb, st))
    always_before(ctx, "T6-table-bounds", "compaction:size-after-finish", fc, lambda e: is_call(e, ("ldb_tablegen_finish", "ldb_tablegen_abandon")),
                  lambda e: e["e"] == "asg" and key(e["lhs"]) == "current_bytes", "the size is read after finish/abandon")


def check_levels(ctx):
    P = ctx.P
    ic = ctx.fn("ldb_install_compaction_results", DB)
    af = one_call(ctx, ic, "ldb_edit_add_file")[0][2]
    lv = [key(e["rhs"]) for b, i, e in ic.events("asg") if key(e["lhs"]) == "level"]
    ctx.check(argkey(af, 1) == "(level + 1)" and lv == ["state->compaction->level"], "T6-level-arithmetic", "outputs-at-level+1", ic.name, site(ic, af),
              "compaction outputs enter level + 1", "outputs enter %s (level = %s)" % (argkey(af, 1), lv))
    w0 = ctx.fn("ldb_write_level0_table", DB)
    af = one_call(ctx, w0, "ldb_edit_add_file")[0][2]
    lv = sorted(key(e["rhs"]) for b, i, e in w0.events("asg") if key(e["lhs"]) == "level")
    ctx.check(argkey(af, 1) == "level" and len(lv) == 1 and lv[0].startswith("ldb_version_pick_level_for_memtable_output(base"), "T6-level-arithmetic",
              "flush-level", w0.name, site(w0, af), "a flushed table enters level 0 or the level chosen by the overlap test",
              "flush level computed as %s" % lv)
    ov = ctx.fn("ldb_version_overlap_in_level", VS)
    c = one_call(ctx, ov, ("some_file_overlaps_range", "ldb_some_file_overlaps_range"))[0][2]
    ctx.check(argkey(c, 1) == "(level > 0)" and argkey(c, 2) == "&ver->files[level]", "T6-level-arithmetic", "disjoint-flag", ov.name, site(ov, c),
              "only level 0 is searched as possibly overlapping", "overlap test flags: %s" % argkey(c, 1))
    c01.check_trivial_move(ctx)
    c01.check_inputs(ctx)
    c17.check_snapshot(ctx)


# (function, file, loop variable, first level, bound, why)
LEVEL_LOOPS = [
    ("ldb_version_add_iterators", VS, "level", "1", 7, "an iterator reads every deeper level (level 0 is added file by file)"),
    ("ldb_version_for_each_overlapping", VS, "level", "1", 7, "a lookup searches every deeper level"),
    ("ldb_versions_add_files", VS, "level", "0", 7, "the live set holds the files of every level"),
    ("ldb_versions_approximate_offset", VS, "level", "0", 7, "sizes are summed over every level"),
    ("ldb_versions_write_snapshot", VS, "level", "0", 7, "the snapshot re-emits every level"),
    ("builder_save_to", VS, "level", "0", 7, "a new version carries every level over"),
    ("builder_init", VS, "level", "0", 7, "the builder has a slot for every level"),
    ("builder_clear", VS, "level", "0", 7, "the builder releases every level"),
    ("ldb_version_init", VS, "level", "0", 7, "a version has a file list for every level"),
    ("ldb_version_clear", VS, "level", "0", 7, "a version releases the files of every level"),
    ("ldb_compaction_is_base_level_for_key", VS, "lvl", "(c->level + 2)", 7, "a key is at its base level only if no deeper level holds it"),
    ("ldb_versions_finalize", VS, "level", "0", 6, "the deepest level is never a compaction source"),
    ("ldb_versions_max_next_level_overlapping_bytes", VS, "level", "1", 6, "pairs (level, level+1)"),
    ("ldb_property", DB, "level", "0", 7, "reports list every level"),
]


def check_level_loops(ctx):
    """Loops over the levels cover exactly the levels they are meant to: a
    bound copied from a neighbouring loop (`LDB_NUM_LEVELS - 1`) silently
    drops the deepest level from iterators, lookups, the live set or the
    MANIFEST snapshot - and no test fills the deepest level."""
    from ..rules import incr_events
    for fname, file, var, first, bound, why in LEVEL_LOOPS:
        f = ctx.fn(fname, file)
        heads = []
        for blk in f.blocks.values():
            t = blk.term
            if t is not None and t.get("k") in ("ForStmt", "WhileStmt", "DoStmt") and "cond" in t:
                c = strip_casts(t["cond"])
                while isinstance(c, dict) and c.get("k") == "un" and c.get("op") == "!":
                    c = strip_casts(c["x"])
                if isinstance(c, dict) and c.get("k") == "bin" and key(c["l"]) == var and const_val(c["r"]) is not None:
                    heads.append((c["op"], const_val(c["r"])))
                elif isinstance(c, dict) and c.get("k") == "bin" and key(c["r"]) == var and const_val(c["l"]) is not None:
                    heads.append(({"<": ">", ">": "<", "<=": ">=", ">=": "<="}.get(c["op"], c["op"]), const_val(c["l"])))
        ctx.require(len(heads) >= 1, "%s: loop over `%s` not found" % (fname, var))
        lasts = sorted({(v - 1 if op in ("<", ">=") else v) for op, v in heads})
        from ..program import vars_in
        inits = sorted({key(e["rhs"]) for b, i, e in f.events("asg") if key(e["lhs"]) == var and e["op"] == "=" and var not in vars_in(e["rhs"])} |
                       {key(e["init"]) for b, i, e in f.events("decl") if e["n"] == var and "init" in e})
        ok = lasts == [bound - 1] and inits == [first] and bool(incr_events(f, var, 1))
        ctx.check(ok, "T2-all-levels", fname, f.name, f.loc, "levels %s .. %d, one by one: %s" % (first, bound - 1, why),
                  "the loop over `%s` runs from %s to %s (expected %s .. %d): %s" % (var, inits, lasts, first, bound - 1, why))


def check_finalized_before_install(ctx):
    """Every version that becomes current carries a computed compaction score:
    ldb_versions_finalize runs before ldb_versions_append_version.  A version
    installed with the initial score (-1) never asks for compaction: level 0
    can fill up to the stop trigger with no background work scheduled."""
    for fname in ("ldb_versions_recover", "ldb_versions_apply"):
        f = ctx.fn(fname, VS)
        ap = [(b, i, e) for (b, i, e) in f.events("call") if is_call(e, "ldb_versions_append_version")]
        ctx.require(len(ap) == 1, "%s: installation of the new version not found" % fname)
        v = argkey(ap[0][2], 1)
        always_before(ctx, "T1-finalized-before-install", fname, f,
                      lambda e, v=v: is_call(e, "ldb_versions_finalize") and argkey(e, 1) == v,
                      lambda e: is_call(e, "ldb_versions_append_version"),
                      "the version installed by %s was finalized (compaction score computed)" % fname)


def check(ctx):
    check_finalized_before_install(ctx)
    from . import c04 as _c04
    _c04.check_write(ctx)          # sequence numbers are not reused: internal keys stay unique within and across files
    check_level_loops(ctx)
    check_builder(ctx)
    check_bounds(ctx)
    check_levels(ctx)
    c01.check_level0_closure(ctx)         # level-0 inputs are closed under overlap ...
    c01.check_manual_truncation(ctx)      # a manual compaction never leaves an overlapping older level-0 file behind
    c01.check_pick_level0_closure(ctx)    # ... for every automatically picked compaction
    c01.check_range_fold(ctx)             # the range that selects next-level inputs covers all inputs
