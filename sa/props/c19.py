"""C19 Repair recovers all surviving data.

Decided: the repair pipeline runs in order (list files, convert logs,
scan tables, write descriptor); the file-number counter dominates every
number seen and every number handed out; the last sequence is the maximum
over all tables; every scanned table is added; old MANIFESTs are archived
before the new one is installed (its fixed number 1 may coincide with an old
one) and CURRENT is switched last; repair archives and never deletes
database files; level-0 provenance - a table placed at level 0 must carry a
file number that reflects its data age (fresh from the allocator) because
level-0 lookups resolve conflicts by file number.
Known finding F1: write_descriptor places surviving tables at level 0 under
their on-disk numbers (see findings/F1).
Not decided: contents after repair.
"""
from ..paths import xgraph
from ..program import const_val, key, strip_casts
from ..rules import (always_before, argkey, call_ok_dominates, check_guard, find_calls, fmt_atoms, holds, is_call,
                     must_pass_before_success, need_call, never_after, one_call, ordered_before_success, site)

EXPLANATION = ("Call-order automata over the repair pipeline and write_descriptor, counter-dominance rules, a "
               "who-may-delete rule for repair.c, and a provenance rule for the file number of every table an edit "
               "places at level 0.")
RULE = "obligation = one ordering / counter / provenance instance; non-trivial = matched a site and walked a path"
MIN_OBLIGATIONS = 25
RP = "src/repair.c"


def check_pipeline(ctx):
    rr = ctx.fn("repair_run", RP)
    ordered_before_success(ctx, "T1-repair-pipeline", "order", rr,
                           [lambda e: is_call(e, "find_files"), lambda e: is_call(e, "convert_logs_to_tables"),
                            lambda e: is_call(e, "extract_meta_data"), lambda e: is_call(e, "write_descriptor")],
                           "files are listed, logs converted, tables scanned, then the descriptor is written")
    wd = one_call(ctx, rr, "write_descriptor")[0]
    call_ok_dominates(ctx, "T1-repair-pipeline", "descriptor-after-listing-ok", rr, wd, "find_files", "writing the descriptor")
    ff = ctx.fn("find_files", RP)
    g = xgraph(ctx.P, ff)
    st = [(b, i, e) for (b, i, e) in ff.events("asg") if key(e["lhs"]) == "rep->next_file_number"]
    ctx.check(len(st) == 1 and key(st[0][2]["rhs"]) == "(number + 1)" and
              holds(g.must_at(st[0][0], st[0][1]), (">", "(number + 1)", "rep->next_file_number")),
              "T6-repair-counters", "next-file-dominates-seen", ff.name, ff.loc,
              "next_file_number is raised above every file number seen", "next_file_number tracking changed")
    for arr, ty in (("&rep->logs", 0), ("&rep->table_numbers", 2), ("&rep->manifests", 3)):
        p = [(b, i, e) for (b, i, e) in find_calls(ff, "ldb_array_push") if argkey(e, 0) == arr]
        ctx.check(len(p) == 1 and argkey(p[0][2], 1) == "number" and holds(g.must_at(p[0][0], p[0][1]), ("==", "type", ty)),
                  "T6-repair-counters", "collect:" + arr, ff.name, ff.loc, "%s collects the numbers of its file type" % arr,
                  "collection into %s changed" % arr)
    # numbers handed out come from the counter
    for fn_name, lhs in (("convert_log_to_table", "meta.number"),):
        f = ctx.fn(fn_name, RP)
        a = [key(e["rhs"]) for b, i, e in f.events("asg") if key(e["lhs"]) == lhs]
        ctx.check(a == ["(rep->next_file_number++)"], "T6-repair-counters", "fresh:" + fn_name, f.name, f.loc,
                  "new tables get numbers from the counter", "%s assigned from %s" % (lhs, a))
    rt = ctx.fn("repair_table", RP)
    c = [argkey(e, 3) for b, i, e in find_calls(rt, "ldb_table_filename") if argkey(e, 0) == "copy"]
    ctx.check(c == ["(rep->next_file_number++)"], "T6-repair-counters", "fresh:repair_table", rt.name, rt.loc,
              "the repaired copy gets a number from the counter", "repair_table copy number is %s" % c)


def check_descriptor(ctx):
    P = ctx.P
    wd = ctx.fn("write_descriptor", RP)
    g = xgraph(P, wd)
    sets = {"ldb_edit_set_comparator_name": None, "ldb_edit_set_log_number": "0", "ldb_edit_set_next_file": "rep->next_file_number",
            "ldb_edit_set_last_sequence": "max_sequence"}
    for callee, want in sorted(sets.items()):
        c = need_call(ctx, "T1-repair-descriptor", callee, wd, callee, "the descriptor records " + callee[9:])
        if c and want is not None:
            ctx.check(argkey(c[0][2], 1) == want, "T1-repair-descriptor", callee + ":value", wd.name, site(wd, c[0][2]),
                      "%s(%s)" % (callee, want), "%s called with %s" % (callee, argkey(c[0][2], 1)))
        if c:
            always_before(ctx, "T1-repair-descriptor", callee + ":before-export", wd, lambda e, cal=callee: is_call(e, cal),
                          lambda e: is_call(e, "ldb_edit_export"), "set before the edit is encoded")
    ms = [(b, i, e) for (b, i, e) in wd.events("asg") if key(e["lhs"]) == "max_sequence"]
    ok = len(ms) == 1 and key(ms[0][2]["rhs"]) == "t->max_sequence" and \
        holds(g.must_at(ms[0][0], ms[0][1]), ("<", "max_sequence", "t->max_sequence")) and \
        holds(g.must_at(ms[0][0], ms[0][1]), ("<", "i", "rep->tables.length"))
    ctx.check(ok, "T6-repair-counters", "max-sequence-fold", wd.name, wd.loc, "last sequence = max over all surviving tables",
              "max_sequence folding changed")
    af = one_call(ctx, wd, "ldb_edit_add_file")[0]
    ctx.check(holds(g.must_at(af[0], af[1]), ("<", "i", "rep->tables.length")) and argkey(af[2], 2) == "t->meta.number" and
              argkey(af[2], 3) == "t->meta.file_size", "T1-repair-descriptor", "all-tables-added", wd.name, site(wd, af[2]),
              "every surviving table is added to the edit", "table registration changed")
    never_after(ctx, "T1-repair-descriptor", "tables-before-export", wd, lambda e: is_call(e, "ldb_edit_export"),
                lambda e: is_call(e, "ldb_edit_add_file"), "no table is added after the edit was encoded")
    # install protocol: archive old manifests, then rename tmp -> MANIFEST-000001, then CURRENT
    inst = lambda e: is_call(e, "ldb_rename_file") and argkey(e, 0) == "tmp"
    never_after(ctx, "T1-repair-install", "archive-before-install", wd, inst, lambda e: is_call(e, "archive_file"),
                "old MANIFESTs are archived before the new one takes the fixed name MANIFEST-000001 "
                "(archiving afterwards can move the new descriptor away)")
    ordered_before_success(ctx, "T1-repair-install", "write-close-rename-current", wd,
                           [lambda e: is_call(e, "ldb_writer_add_record"), lambda e: is_call(e, "ldb_wfile_close"), inst,
                            lambda e: is_call(e, "ldb_set_current_file")],
                           "descriptor written and closed, renamed into place, then CURRENT switched")
    rn = [(b, i, e) for (b, i, e) in wd.events("call") if inst(e)]
    if rn:
        check_guard(ctx, "T1-repair-install", "rename-after-ok", wd, rn[0], [[("==", "rc", "0")]], "installing the new descriptor")
    dn = [e for b, i, e in find_calls(wd, "ldb_desc_filename")]
    ctx.check(any(const_val(e["a"][3]) == 1 for e in dn), "T1-repair-install", "fixed-number-1", wd.name, wd.loc,
              "the new descriptor is MANIFEST-000001 (next_file_number >= 2 keeps it unique among new files)",
              "descriptor number changed")
    sc = one_call(ctx, wd, "ldb_set_current_file")[0][2]
    ctx.check(const_val(sc["a"][1]) == 1, "T1-repair-install", "current-names-it", wd.name, site(wd, sc), "CURRENT names MANIFEST-000001",
              "CURRENT switched to %s" % key(sc["a"][1]))


def check_table_sequences(ctx):
    """The last sequence written to the new descriptor is the maximum over
    the entries actually found in the surviving tables: a table enters
    rep->tables only through the scan (or the salvage of a scanned table), and
    its max_sequence is folded from every parsed key."""
    from ..rules import BAD, check_automaton, stores_of_field_in_program
    P = ctx.P
    pushes = []
    for f in P.all_functions:
        if f.file != RP:
            continue
        for b, i, e in find_calls(f, "ldb_vector_push"):
            if argkey(e, 0) == "&rep->tables":
                pushes.append((f, e))
    ctx.require(len(pushes) >= 2, "registrations into rep->tables not found")
    for f, e in pushes:
        ctx.check(f.name in ("scan_table", "repair_table"), "T5-repair-table-registration", "%s@%s" % (f.name, e["l"].split(":")[1]),
                  f.name, site(f, e), "tables are registered by the scan (or the salvage of a scanned table)",
                  "%s registers a table without scanning its entries: its max_sequence is not derived from the data" % f.name,
                  subject="register:" + f.name)
    sts = stores_of_field_in_program(P, "ldb_tabinfo_s", "max_sequence")
    ctx.require(len(sts) >= 2, "stores to tabinfo.max_sequence not found")
    for f, b, i, e in sts:
        if const_val(e["rhs"]) == 0:
            ctx.ok("T6-repair-counters", "table-max-sequence:init@%s:%s" % (f.name, e["l"].split(":")[1]), site(f, e), "initialised to 0")
            continue
        atoms = xgraph(P, f).must_at(b, i)
        ok = f.name == "scan_table" and key(e["rhs"]) == "parsed.sequence" and e["op"] == "=" and \
            holds(atoms, (">", "parsed.sequence", "t->max_sequence")) and holds(atoms, ("!=", ("CALL", "ldb_pkey_import"), "0"))
        ctx.check(ok, "T6-repair-counters", "table-max-sequence:fold@%s:%s" % (f.name, e["l"].split(":")[1]), f.name, site(f, e),
                  "a table's max_sequence is the maximum over its parsed keys",
                  "table max_sequence stored from %s in %s; facts %s" % (key(e["rhs"]), f.name, fmt_atoms(atoms)),
                  subject="table-max-sequence:" + f.name)
    sc = ctx.fn("scan_table", RP)
    from ..rules import is_incr
    is_count = lambda e: is_incr(e, "counter", 1)
    ctx.require(any(is_count(e) for b, i, e in sc.events()), "scan_table: entry counter not found")

    def step(q, e, st, b, i):
        if q == BAD:
            return q
        if is_count(e):
            return BAD if q == 1 else 1
        if e["e"] == "ret" and q == 1:
            return BAD
        return q

    def edge(q, lit):
        if q == 1 and lit is not None and lit[0] not in ("case", "default"):
            k = key(lit[0])
            if "parsed.sequence" in k and "t->max_sequence" in k:
                return 0
        return q
    check_automaton(ctx, "T6-repair-counters", "table-max-sequence:every-entry", sc, 0, step, edge,
                    "every counted entry of a scanned table is compared against the table's max_sequence")


def check_every_log_converted(ctx):
    """Every log found is converted before it is archived: repair has no
    MANIFEST to tell which logs are obsolete, so skipping one loses its
    updates.  always_before(convert, archive) on every path of the loop, and
    the loop covers all logs."""
    f = ctx.fn("convert_logs_to_tables", RP)
    g = xgraph(ctx.P, f)
    cv = [(b, i, e) for (b, i, e) in f.events("call") if is_call(e, "convert_log_to_table")]
    if not cv:
        ctx.bad("T1-repair-logs", "converted", f.name, f.loc, "logs are no longer converted to tables")
        return
    ctx.check(len(cv) == 1 and argkey(cv[0][2], 1) in ("log", "rep->logs.items[i]") and
              holds(g.must_at(cv[0][0], cv[0][1]), ("<", "i", "rep->logs.length")), "T1-repair-logs", "converted", f.name, site(f, cv[0][2]),
              "each listed log is converted", "log conversion changed")
    from ..rules import BAD, check_automaton

    def step(q, e, st, b, i):
        if q == BAD:
            return q
        if e["e"] == "decl" and e["n"] == "log":
            return 0
        if is_call(e, "convert_log_to_table"):
            return 1
        if is_call(e, "archive_file") and q == 0:
            return BAD
        return q
    check_automaton(ctx, "T1-repair-logs", "converted-before-archived", f, 0, step, None,
                    "a log is moved away only after it was converted")
    from ..rules import sequences_under
    seqs = sequences_under(f, lambda e: "convert" if is_call(e, "convert_log_to_table") else ("archive" if is_call(e, "archive_file") else None),
                           lambda t: 1 if (t.get("k") == "call" and t.get("f") == "ldb_log_filename") else None,
                           start=lambda e: e["e"] == "decl" and e["n"] == "log")
    rounds = {tuple(x for x in s2 if x != "<loop>")[:2] for s2 in seqs}
    ctx.check(rounds == {("convert", "archive")}, "T1-repair-logs", "every-log", f.name, f.loc,
              "every round of the loop converts its log and then archives it", "a round of the log loop performs %s" % sorted(rounds))


def check_archive_not_delete(ctx):
    P = ctx.P
    n = 0
    for f in P.all_functions:
        if f.file != RP:
            continue
        for b, i, e in find_calls(f, "ldb_remove_file"):
            n += 1
            tgt = argkey(e, 0)
            ctx.check(tgt in ("tmp", "copy"), "T5-repair-archives", "%s:remove(%s)" % (f.name, tgt), f.name, site(f, e),
                      "repair removes only its own temporary files", "repair deletes %s" % tgt)
    ctx.require(n >= 2, "repair.c: removal sites not found")
    ar = ctx.fn("archive_file", RP)
    rn = need_call(ctx, "T5-repair-archives", "archive=rename", ar, "ldb_rename_file", "archiving is a rename into lost/")
    if rn:
        ctx.check(argkey(rn[0][2], 0) == "fname" and argkey(rn[0][2], 1) == "newfile", "T5-repair-archives", "archive-args", ar.name,
                  site(ar, rn[0][2]), "rename(fname, lost/basename)", "archive rename arguments changed")
    jn = [(argkey(e, 0), argkey(e, 3)) for b, i, e in find_calls(ar, "ldb_join")]
    ctx.check(("newdir", '"lost"') in jn and ("newfile", "base") in jn, "T5-repair-archives", "lost-dir", ar.name, ar.loc,
              "archived files go to <dir>/lost/<name>", "archive path construction changed: %s" % jn)


FRESH = "ldb_versions_new_file_number"


def check_level0_provenance(ctx):
    """Level-0 lookups consult files newest-number-first and stop at the first
    hit, so a file's number must order it by data age among level-0 files."""
    P = ctx.P
    n = 0
    for f, b, i, e in P.callers_of("ldb_edit_add_file"):
        n += 1
        lvl = strip_casts(e["a"][1])
        num = strip_casts(e["a"][2])
        inst = "%s@%s" % (f.name, e["l"].split(":")[1])
        if f.name == "ldb_edit_import":
            ctx.ok("T5-level0-provenance", inst, site(f, e), "decoder: replays an edit that was checked when it was produced", False)
            continue
        c = const_val(lvl)
        if c is not None and c > 0:
            ctx.ok("T5-level0-provenance", inst, site(f, e), "constant level %d > 0" % c)
            continue
        if isinstance(lvl, dict) and lvl.get("k") == "bin" and lvl["op"] == "+" and (const_val(lvl["r"]) or 0) >= 1:
            ctx.ok("T5-level0-provenance", inst, site(f, e), "level is %s >= 1" % key(lvl))
            continue
        # level may be 0
        numk = key(num)
        fresh = any(e2["e"] == "asg" and key(e2["lhs"]) == numk and key(e2["rhs"]).startswith(FRESH + "(")
                    for b2, i2, e2 in f.events("asg"))
        reemit = (f.name == "ldb_versions_write_snapshot" and numk == "f->number" and key(lvl) == "level" and
                  any(e2["e"] == "decl" and e2["n"] == "files" and key(e2.get("init")) == "(&vset->current->files[level])"
                      for b2, i2, e2 in f.events("decl")))
        ctx.check(fresh or reemit, "T5-level0-provenance", inst, f.name, site(f, e),
                  "level-0 file number is %s" % ("freshly allocated" if fresh else "a re-emitted current file at its own level"),
                  "a table is placed at level %s under file number `%s`, which is neither freshly allocated nor a re-emitted "
                  "current file: level-0 lookups take the highest number as the newest data" % (key(lvl), numk),
                  subject="ldb_edit_add_file")
    ctx.require(n >= 5, "ldb_edit_add_file call sites not found")
    # the premise: newest_first really is what level 0 uses
    from . import c01
    nf = ctx.fn("newest_first", "src/version_set.c")
    c01._sign(ctx, "T8-level0-newest-first", "newest_first", nf, "a->number", "b->number", (1, 0, -1),
              "level 0 is searched by descending file number", tie=())


def check(ctx):
    from . import c01 as _c01c
    _c01c.check_level0_closure(ctx)   # repair puts every table into level 0: compactions there take the whole overlap chain
    from . import tablefmt as _tf3
    _tf3.check_policy_wrapping(ctx)   # filters are built and probed over user keys
    check_every_log_converted(ctx)
    check_table_sequences(ctx)
    check_pipeline(ctx)
    check_descriptor(ctx)
    check_archive_not_delete(ctx)
    check_level0_provenance(ctx)
