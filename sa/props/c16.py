"""C16 Table files round-trip under every option and follow the standard format.

Decided: table-format constants (compile-time witnesses); block trailer
layout and CRC coverage of writer and reader against the standard; block
type switch; footer layout, size and magic guards; filters never reject on
malformed data (shared with C01).
Not decided: round-trip of entries, Snappy, separator/successor contracts.
"""
from .. import witness
from . import tablefmt, c01

EXPLANATION = ("Compile-time witnesses for the table-format constants, writer/reader sibling agreement on block trailer "
               "and footer layout (expression shapes against the standard format), guard dominance for size, magic, "
               "checksum and block-type handling, filter fail-open rules.")
RULE = "obligation = one constant / layout row / guard instance; non-trivial = compared a pair or walked a path"
MIN_OBLIGATIONS = 50


def check(ctx):
    tablefmt.check_capi_comparator(ctx)
    from . import tablefmt as _tf3
    _tf3.check_policy_wrapping(ctx)   # filters are built and probed over user keys
    witness.run(ctx, "C16")
    tablefmt.check_write_block(ctx)
    tablefmt.check_read_block(ctx)
    tablefmt.check_footer(ctx)
    tablefmt.check_filter_builder(ctx)
    tablefmt.check_snappy_literal(ctx)
    c01.check_table_get(ctx)
    tablefmt.check_separators(ctx)
    tablefmt.check_filter_offsets(ctx)
    tablefmt.check_filter_name_match(ctx)
    from . import c18 as _c18
    _c18.check_internal_key_gate(ctx)   # a block is declared corrupt on a short key only where keys carry the 8-byte tag
