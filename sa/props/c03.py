"""C03 A process crash loses nothing that was acknowledged.

Decided: the log record reaches write(2) before the memtable insert and the
acknowledgement; recovery replays exactly the logs not older than the
MANIFEST's log number, in ascending order, marks their numbers, and folds the
maximum sequence; a log is retired in an edit only after the flush that
emptied it succeeded; reused logs are appended at their real length.
Not decided: equality of the recovered state with the fold of batches.
"""
from ..paths import xgraph
from ..program import const_val, key, strip_casts
from ..rules import (BAD, Unsupported, argkey, always_before, call_ok_dominates, check_automaton, check_guard,
                     find_calls, fmt_atoms, holds, is_call, iteration_equiv, must_pass_before_success,
                     never_after, need_call, one_call, rel_edge, sign_triple, site, truth_of)
from ..build import AnalysisBroken
from . import wal, c17

EXPLANATION = ("Static decision of the crash-consistency clauses of C03: log-before-memtable-before-ack on every "
               "path of ldb_write/emit_physical_record, the replay set and order computed by ldb_recover "
               "(guard equivalence in both directions + comparator ordering analysis), counter folding, and "
               "log-retirement guards.")
RULE = "obligation = one ordering / guard / table instance at one site; non-trivial = matched a site and walked a path"
MIN_OBLIGATIONS = 40
DB = "src/db_impl.c"


def check_write(ctx):
    f = ctx.fn("ldb_write", DB)
    ins = one_call(ctx, f, "ldb_batch_insert_into")[0]
    call_ok_dominates(ctx, "T2-log-before-memtable", "insert", f, ins, "ldb_writer_add_record",
                      "inserting the batch into the memtable")
    always_before(ctx, "T1-log-before-ack", "add_record<done", f,
                  lambda e: is_call(e, ("ldb_writer_add_record", "ldb_make_room_for_write")),
                  lambda e: e["e"] == "asg" and key(e["lhs"]) == "ready->done",
                  "followers are acknowledged only after the leader went through the log phase")
    st = [e for b, i, e in f.events("asg") if key(e["lhs"]) == "ready->status"]
    ctx.check(len(st) == 1 and key(st[0]["rhs"]) == "rc", "T4-follower-status", "ready->status", f.name, f.loc,
              "followers receive the leader's status", "followers receive %s" % [key(x["rhs"]) for x in st])


def check_replay_set(ctx):
    f = ctx.fn("ldb_recover", DB)
    push = one_call(ctx, f, "ldb_array_push")
    ctx.require(len(push) == 1 and argkey(push[0][2], 0) == "&logs", "ldb_recover: log collection not found")
    defs = {key(e["lhs"]): key(e["rhs"]) for b, i, e in f.events("asg") if key(e["lhs"]) in ("min_log", "prev_log")}
    ctx.check(defs == {"min_log": "db->versions->log_number", "prev_log": "db->versions->prev_log_number"},
              "T6-replay-bounds", "min/prev", f.name, f.loc,
              "replay bounds come from the recovered MANIFEST", "replay bounds are %s" % defs)
    always_before(ctx, "T1-replay-bounds-after-manifest", "recover<bounds", f,
                  lambda e: is_call(e, "ldb_versions_recover"),
                  lambda e: e["e"] == "asg" and key(e["lhs"]) in ("min_log", "prev_log"),
                  "the bounds are read after the MANIFEST was recovered")
    flags = {
        "parsed": lambda c, p: _call_truth(c, p, "ldb_parse_filename") is True,
        "islog": lambda c, p: rel_edge(c, p, "==", "type", 0),
        "notlog": lambda c, p: rel_edge(c, p, "!=", "type", 0),
        "ge": lambda c, p: rel_edge(c, p, ">=", "number", "min_log"),
        "lt": lambda c, p: rel_edge(c, p, "<", "number", "min_log"),
        "eqprev": lambda c, p: rel_edge(c, p, "==", "number", "prev_log"),
        "neprev": lambda c, p: rel_edge(c, p, "!=", "number", "prev_log"),
        "unparsed": lambda c, p: _call_truth(c, p, "ldb_parse_filename") is False,
    }
    iteration_equiv(ctx, "T2-replay-set", "log-filter", f,
                    reset=lambda e: is_call(e, "ldb_parse_filename"),
                    target=lambda e: is_call(e, "ldb_array_push"),
                    flag_edges=flags,
                    exec_ok=lambda fl: "parsed" in fl and "islog" in fl and ("ge" in fl or "eqprev" in fl),
                    skip_ok=lambda fl: "unparsed" in fl or "notlog" in fl or ("lt" in fl and "neprev" in fl),
                    what="a log is replayed iff number >= log_number or number == prev_log_number")
    ctx.check(argkey(push[0][2], 1) == "number", "T6-replay-bounds", "pushed", f.name, site(f, push[0][2]),
              "the parsed number is what gets replayed", "pushed value is %s" % argkey(push[0][2], 1))
    srts = need_call(ctx, "T1-replay-order", "sort-call", f, "ldb_array_sort", "logs are replayed in generation order")
    for srt in srts[:1]:
        ctx.check(argkey(srt[2], 0) == "&logs" and argkey(srt[2], 1) == "compare_ascending", "T1-replay-order",
                  "sort-call", f.name, site(f, srt[2]), "logs are sorted with compare_ascending",
                  "logs sorted as %s" % [argkey(srt[2], 0), argkey(srt[2], 1)])
    always_before(ctx, "T1-replay-order", "sort<replay", f, lambda e: is_call(e, "ldb_array_sort"),
                  lambda e: is_call(e, "ldb_recover_log_file"), "replay starts after sorting")
    never_after(ctx, "T1-replay-order", "no-push-after-sort", f, lambda e: is_call(e, "ldb_array_sort"),
                lambda e: is_call(e, "ldb_array_push"), "no log is added after sorting")
    ca = ctx.fn("compare_ascending", DB)
    ret = [e for b, i, e in ca.events("ret")]
    ctx.require(len(ret) == 1, "compare_ascending: single return expected")
    try:
        tr = sign_triple(ret[0]["x"], "x", "y")
    except Unsupported as u:
        raise AnalysisBroken("compare_ascending: %s" % u)
    ctx.check(tr == (-1, 0, 1), "T8-replay-order", "ascending", ca.name, ca.loc,
              "compare_ascending(x, y) has sign (-,0,+) for x<y, x=y, x>y",
              "compare_ascending has sign triple %s, expected (-1, 0, 1)" % (tr,))
    srtf = ctx.fn("ldb_array_sort", "src/util/array.c")
    ctx.ok("T8-replay-order", "sort-impl", srtf.loc, "ldb_array_sort present (generic sort, not analysed)", False)
    # replay loop: in index order, each log marked
    rl = one_call(ctx, f, "ldb_recover_log_file")[0]
    ctx.check(argkey(rl[2], 1) == "logs.items[i]", "T1-replay-order", "index-order", f.name, site(f, rl[2]),
              "logs are replayed by ascending index", "replayed element is %s" % argkey(rl[2], 1))
    must_pass_before_success(ctx, "T1-replay-mark", "mark-after-replay", f,
                             lambda e: is_call(e, "ldb_recover_log_file"),
                             lambda e: is_call(e, "ldb_versions_mark_file_number") and argkey(e, 1) == "logs.items[i]",
                             "every replayed log number is marked used in the allocator",
                             reset=lambda e: is_call(e, "ldb_recover_log_file"))
    # last_sequence raised to the maximum replayed
    sts = [(b, i, e) for (b, i, e) in f.events("asg") if key(e["lhs"]) == "db->versions->last_sequence"]
    ok = len(sts) == 1 and key(sts[0][2]["rhs"]) == "max_sequence"
    ctx.check(ok, "T6-replay-sequence", "raise", f.name, f.loc, "versions->last_sequence is raised to max_sequence",
              "last_sequence update changed")
    if ok:
        atoms = xgraph(ctx.P, f).must_at(sts[0][0], sts[0][1])
        ctx.check(holds(atoms, ("<", "db->versions->last_sequence", "max_sequence")), "T6-replay-sequence",
                  "only-raise", f.name, site(f, sts[0][2]), "last_sequence is only ever raised",
                  "last_sequence may be lowered during recovery; facts %s" % fmt_atoms(atoms))
    must_pass_before_success(ctx, "T1-replay-sequence", "raise-before-success", f,
                             lambda e: is_call(e, "ldb_recover_log_file"),
                             lambda e: e["e"] == "asg" and key(e["lhs"]) == "db->versions->last_sequence",
                             "a successful recovery with replayed logs folds max_sequence",
                             edge_pass=lambda lit: rel_edge(lit[0], lit[1], ">=", "db->versions->last_sequence", "max_sequence"))
    ml = one_call(ctx, f, "ldb_recover_log_file")[0][2]
    ctx.check(argkey(ml, 5) == "&max_sequence", "T6-replay-sequence", "out-param", f.name, site(f, ml),
              "ldb_recover_log_file reports into max_sequence", "max_sequence is not passed to the replay")


def _call_truth(c, p, name):
    c = strip_casts(c)
    while isinstance(c, dict) and c.get("k") == "un" and c.get("op") == "!":
        p = not p
        c = strip_casts(c["x"])
    if isinstance(c, dict) and c.get("k") == "call" and c.get("f") == name:
        return p
    return None


def check_reuse_manifest_offset(ctx):
    """A reused MANIFEST is appended at its measured size: the log writer's
    block position is length % 32768, so a wrong length makes later records
    straddle block boundaries (shared with C17)."""
    vr = ctx.fn("ldb_versions_reuse_manifest", "src/version_set.c")
    fs = one_call(ctx, vr, "ldb_file_size")[0][2]
    ap = one_call(ctx, vr, "ldb_appendfile_create")[0][2]
    wc = one_call(ctx, vr, "ldb_writer_create")[0][2]
    ok = argkey(fs, 0) == argkey(ap, 0) and argkey(fs, 1) == "&" + (argkey(wc, 1) or "") and \
        argkey(ap, 1) == "&" + (argkey(wc, 0) or "")
    ctx.check(ok, "T6-log-reuse-offset", "reuse_manifest", vr.name, site(vr, wc),
              "the reused MANIFEST is appended at its measured size", "MANIFEST reuse offset/file mismatch")


def check_log_file(ctx):
    f = ctx.fn("ldb_recover_log_file", DB)
    g = xgraph(ctx.P, f)
    ls = [e for b, i, e in f.events("asg") if key(e["lhs"]) == "last_seq"]
    ctx.check(len(ls) == 1 and key(ls[0]["rhs"]) == "((ldb_batch_sequence((&batch)) + ldb_batch_count((&batch))) - 1)",
              "T6-replay-sequence", "last_seq", f.name, f.loc, "last_seq = sequence + count - 1",
              "last_seq computed as %s" % [key(x["rhs"]) for x in ls])
    ms = [(b, i, e) for (b, i, e) in f.events("asg") if key(e["lhs"]) == "(*max_sequence)"]
    ok = len(ms) == 1 and key(ms[0][2]["rhs"]) == "last_seq" and \
        holds(g.must_at(ms[0][0], ms[0][1]), (">", "last_seq", "(*max_sequence)"))
    ctx.check(ok, "T6-replay-sequence", "max-fold", f.name, f.loc, "*max_sequence = max(*max_sequence, last_seq)",
              "max_sequence folding changed")
    ins = one_call(ctx, f, "ldb_batch_insert_into")[0]
    must_pass_before_success(ctx, "T1-replay-sequence", "fold-after-insert", f,
                             lambda e: is_call(e, "ldb_batch_insert_into"),
                             lambda e: e["e"] == "asg" and key(e["lhs"]) == "last_seq",
                             "every applied batch contributes to max_sequence",
                             reset=lambda e: is_call(e, "ldb_batch_insert_into"),
                             edge_pass=lambda lit: truth_of(lit[0], lit[1], "rc") is True)
    # reuse: writer length is the size of the same file
    fs = one_call(ctx, f, "ldb_file_size")[0][2]
    ap = one_call(ctx, f, "ldb_appendfile_create")[0][2]
    wc = one_call(ctx, f, "ldb_writer_create")[0][2]
    ok = argkey(fs, 0) == argkey(ap, 0) and argkey(fs, 1) == "&" + (argkey(wc, 1) or "") and \
        argkey(ap, 1) == "&" + (argkey(wc, 0) or "")
    ctx.check(ok, "T6-log-reuse-offset", "recover_log_file", f.name, site(f, wc),
              "the reused log is appended at its measured size", "reuse offset/file mismatch")
    st = [e for b, i, e in f.events("asg") if key(e["lhs"]) == "db->logfile_number"]
    ctx.check(len(st) == 1 and key(st[0]["rhs"]) == "log_number", "T6-log-reuse-offset", "number", f.name, f.loc,
              "the reused log keeps its number", "db->logfile_number set to %s" % [key(x["rhs"]) for x in st])
    # reuse only if nothing of this log was flushed and it is the last one
    wcev = one_call(ctx, f, "ldb_writer_create")[0]
    atoms = g.must_at(wcev[0], wcev[1])
    ctx.check(holds(atoms, ("!=", "last_log", "0")) and holds(atoms, ("==", "compactions", "0")) and
              holds(atoms, ("==", "rc", "0")), "T2-log-reuse-guard", "last&&uncompacted", f.name, site(f, wcev[2]),
              "only the last, fully replayed, unflushed log is reused", "log reuse guard weakened: %s" % fmt_atoms(atoms))
    check_reuse_manifest_offset(ctx)
    # leftover memtable is flushed before success
    newmem = lambda e: e["e"] == "asg" and key(e["lhs"]) == "mem" and key(e["rhs"]).startswith("ldb_memtable_create(")
    must_pass_before_success(ctx, "T1-replay-flush", "mem-flushed-or-adopted", f,
                             newmem,
                             lambda e: is_call(e, "ldb_write_level0_table") or
                             (e["e"] == "asg" and key(e["lhs"]) == "db->mem" and key(e["rhs"]) == "mem"),
                             "a replayed memtable is either written to a table or adopted as db->mem",
                             reset=newmem,
                             # rc escapes through reporter.status, so the kernel cannot classify the
                             # return; an edge establishing rc != LDB_OK marks the error exit instead
                             edge_pass=lambda lit: truth_of(lit[0], lit[1], "rc") is True)


def check_retirement(ctx):
    cm = ctx.fn("ldb_compact_memtable", DB)
    sl = one_call(ctx, cm, "ldb_edit_set_log_number")[0]
    ctx.check(argkey(sl[2], 1) == "db->logfile_number", "T6-log-retire", "compact_memtable:value", cm.name,
              site(cm, sl[2]), "the edit keeps the current log", "log number in edit is %s" % argkey(sl[2], 1))
    call_ok_dominates(ctx, "T2-log-retire", "compact_memtable", cm, sl, "ldb_write_level0_table",
                      "retiring the older logs")
    op = ctx.fn("ldb_open", DB)
    for b, i, e in one_call(ctx, op, "ldb_edit_set_log_number"):
        check_guard(ctx, "T2-log-retire", "ldb_open@%s" % e["l"].split(":")[1], op, (b, i, e),
                    [[("==", "rc", "0")]], "setting the edit's log number in ldb_open")
    ap = one_call(ctx, op, "ldb_versions_apply")[0]
    check_guard(ctx, "T2-log-retire", "ldb_open:apply", op, ap, [[("==", "rc", "0")]], "applying the recovery edit")
    # memtable switch: one critical section
    mr = ctx.fn("ldb_make_room_for_write", DB)
    sw = lambda e: e["e"] == "asg" and key(e["lhs"]) in ("db->logfile_number", "db->logfile", "db->log", "db->imm", "db->mem")
    sts = [e for b, i, e in mr.events("asg") if sw(e)]
    ctx.require(len(sts) == 5, "ldb_make_room_for_write: memtable switch stores not found (%d)" % len(sts))
    unlocking = _may_release(ctx.P)

    def step(q, e, st, b, i):
        if q == BAD:
            return q
        if sw(e):
            return q + 1 if isinstance(q, int) else q
        if isinstance(q, int) and 0 < q < 5 and e["e"] == "call":
            n = e.get("f")
            if n in ("ldb_mutex_unlock", "ldb_cond_wait") or n in unlocking:
                return BAD
        if isinstance(q, int) and q >= 5:
            return 0
        return q
    check_automaton(ctx, "T3d-memtable-switch", "one-section", mr, 0, step, None,
                    "log number, log file, writer, imm and mem are switched in one critical section")
    imm = [e for e in sts if key(e["lhs"]) == "db->imm"]
    ctx.check(key(imm[0]["rhs"]) == "db->mem", "T6-memtable-switch", "imm=mem", mr.name, site(mr, imm[0]),
              "the full memtable becomes imm", "db->imm = %s" % key(imm[0]["rhs"]))
    lf = [e for e in sts if key(e["lhs"]) == "db->logfile_number"]
    ctx.check(key(lf[0]["rhs"]) == "new_log_number", "T6-memtable-switch", "logfile_number", mr.name, site(mr, lf[0]),
              "logfile_number is the number of the new file", "db->logfile_number = %s" % key(lf[0]["rhs"]))
    always_before(ctx, "T1-memtable-switch", "create<switch", mr, lambda e: is_call(e, "ldb_truncfile_create"),
                  lambda e: e["e"] == "asg" and key(e["lhs"]) == "db->imm",
                  "the new log exists before the memtable is switched")
    swst = [(b, i, e) for (b, i, e) in mr.events("asg") if key(e["lhs"]) == "db->imm"][0]
    call_ok_dominates(ctx, "T2-memtable-switch", "create-ok", mr, swst, "ldb_truncfile_create",
                      "switching the memtable")


def _may_release(P):
    """Names of functions that (transitively) release the DB mutex: unlock it
    or wait on it.  Other lock classes (logger, cache shards) do not count."""
    cache = getattr(P, "_may_release", None)
    if cache is not None:
        return cache
    from ..locks import classify
    direct = set()
    for f in P.all_functions:
        for b, i, e in f.events("call"):
            if e.get("f") == "ldb_mutex_unlock" and classify(e["a"][0], f) == "DB":
                direct.add(f)
            elif e.get("f") == "ldb_cond_wait" and classify(e["a"][1], f) == "DB":
                direct.add(f)
    cg = P.callgraph()
    res = set(direct)
    changed = True
    while changed:
        changed = False
        for f in P.all_functions:
            if f in res:
                continue
            if any(g in res for g, e in cg.get(f, ())):
                res.add(f)
                changed = True
    P._may_release = {f.name for f in res}
    return P._may_release


def check(ctx):
    from . import c02 as _c02b
    _c02b.check_gc(ctx)            # nothing is collected between a failed install and the latching of its error
    wal.check_emit(ctx)
    check_write(ctx)
    from . import c04
    c04.check_group_ack(ctx)   # an acknowledged follower is part of the logged group
    check_replay_set(ctx)
    check_log_file(ctx)
    check_retirement(ctx)
    c17.check_recover(ctx)
    c17.check_current(ctx)        # CURRENT switches atomically: no crash point leaves the directory without a valid CURRENT
    c17.check_edit_numbers(ctx)   # the edit that retires a log is not overwritten with the old numbers
    c17.check_snapshot(ctx)       # the MANIFEST every open writes afresh names every file of every level
    from . import c02, c13
    c02.check_manifest(ctx)    # a kill between the CURRENT switch and the MANIFEST record must leave an openable database
    c13.check_gc(ctx)          # a log the MANIFEST still needs for replay is never collected
    c02.check_tables(ctx)      # a flush whose table was not written, synced and closed never retires its log
    c02.check_env(ctx)         # an acknowledged record reached write(2) completely (short writes are continued)
