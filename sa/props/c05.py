"""C05 Recovery always succeeds and yields a coherent, writable database.

Decided: a torn log tail is end-of-file, never a reported corruption; the
missing-file error needs a file that is really expected; a failed recovery
writes nothing and releases everything; replay errors are ignored only in
non-paranoid mode.  Ordering of the MANIFEST/CURRENT switch is decided under
C02, the replay set and counters under C03.
Not decided: that every crash image opens; nested crashes.
"""
from ..paths import xgraph
from ..program import const_val, key, strip_casts
from ..rules import (BAD, argkey, always_before, check_automaton, check_guard, find_calls, fmt_atoms, holds,
                     is_call, must_pass_before_success, never_after, one_call, site, truth_of)
from . import wal, c03, c17

EXPLANATION = ("Static decision of the recovery clauses of C05 over every feasible path of the log reader, "
               "ldb_recover, ldb_recover_log_file and ldb_open: torn tail = EOF, expected-file guard, nothing "
               "written after a failed recover, error-ignoring only in non-paranoid mode.")
RULE = "obligation = one guard / ordering instance at one site; non-trivial = matched a site and walked a path"
MIN_OBLIGATIONS = 35
DB = "src/db_impl.c"


def check_expected(ctx):
    f = ctx.fn("ldb_recover", DB)
    g = xgraph(ctx.P, f)
    cor = [(b, i, e) for (b, i, e) in f.events("asg") if key(e["lhs"]) == "rc" and
           const_val(e["rhs"]) not in (None, 0) and "LDB_CORRUPTION" in (strip_casts(e["rhs"]).get("mac") or [])]
    ctx.check(len(cor) == 1, "T2-missing-files", "error-exists", f.name, f.loc,
              "a missing table file fails the open with LDB_CORRUPTION",
              "ldb_recover no longer reports missing files (%d corruption sites)" % len(cor))
    for b, i, e in cor[:1]:
        ctx.check(holds(g.must_at(b, i), ("!=", "expected.size", "0")), "T2-missing-files", "guard", f.name, site(f, e),
                  "missing files are reported only if the expected set is non-empty",
                  "missing-files corruption raised without the expected-set test")
    af = [x for x in find_calls(f, "ldb_versions_add_files") if argkey(x[2], 1) == "&expected"]
    ctx.check(len(af) == 1, "T2-missing-files", "filled", f.name, f.loc,
              "expected = files referenced by the recovered versions", "expected set is not filled from the versions")
    dl = [x for x in find_calls(f, ("ldb_rb_set64_del", "rb_set64_del")) if argkey(x[2], 0) == "&expected"]
    ok = len(dl) == 1 and holds(g.must_at(dl[0][0], dl[0][1]), ("!=", ("CALL", "ldb_parse_filename"), "0"))
    ctx.check(ok, "T2-missing-files", "emptied-by-listing", f.name, f.loc,
              "every parsed directory entry is removed from the expected set",
              "directory entries no longer clear the expected set")
    if ok:
        ctx.check(argkey(dl[0][2], 1) == "number", "T2-missing-files", "emptied-by-number", f.name, site(f, dl[0][2]),
                  "removal is by the parsed file number", "removal key is %s" % argkey(dl[0][2], 1))
    # directory listing failure is an error, not an empty directory
    gc = one_call(ctx, f, "ldb_get_children")[0]
    rl = one_call(ctx, f, "ldb_recover_log_file")[0]
    atoms = g.must_at(rl[0], rl[1])
    ctx.check(holds(atoms, (">=", "len", 0)) and holds(atoms, ("==", "expected.size", "0")), "T2-missing-files",
              "replay-after-check", f.name, site(f, rl[2]),
              "logs are replayed only with a complete file set and a readable directory",
              "log replay reachable with missing files or failed listing; facts: %s" % fmt_atoms(atoms))
    # lock first, MANIFEST before logs
    always_before(ctx, "T1-recover-order", "lock<manifest", f, lambda e: is_call(e, "ldb_lock_file"),
                  lambda e: is_call(e, ("ldb_versions_recover", "ldb_new_db")), "the lock is taken first")
    always_before(ctx, "T1-recover-order", "manifest<logs", f, lambda e: is_call(e, "ldb_versions_recover"),
                  lambda e: is_call(e, "ldb_recover_log_file"), "the MANIFEST is recovered before any log")
    for callee in ("ldb_lock_file", "ldb_versions_recover", "ldb_new_db"):
        ev = one_call(ctx, f, callee)[0]
        ctx.check(ev[2].get("use") in ("assign", "init", "ret", "cond"), "T4-recover-status", callee, f.name,
                  site(f, ev[2]), "status of %s kept" % callee, "status of %s dropped" % callee)
    # a failed step returns before the next one
    vr = one_call(ctx, f, "ldb_versions_recover")[0]
    from ..rules import call_ok_dominates
    call_ok_dominates(ctx, "T2-recover-order", "listing-after-manifest-ok", f, gc, "ldb_versions_recover",
                      "listing the directory for log replay")
    call_ok_dominates(ctx, "T2-recover-order", "manifest-after-lock-ok", f, vr, "ldb_lock_file",
                      "recovering the MANIFEST")


def check_open(ctx):
    f = ctx.fn("ldb_open", DB)
    for callee in ("ldb_versions_apply", "ldb_remove_obsolete_files", "ldb_maybe_schedule_compaction",
                   "ldb_truncfile_create"):
        for ev in one_call(ctx, f, callee):
            check_guard(ctx, "T2-open-after-recover", callee, f, ev, [[("==", "rc", "0")]],
                        "%s in ldb_open" % callee)
    # failure exit destroys the handle (lock release is decided under C20), success publishes it
    def step(q, e, st, b, i):
        if q == BAD:
            return q
        if is_call(e, "ldb_create"):
            return 1
        if q == 1 and is_call(e, "ldb_destroy_internal"):
            return 2
        if q == 1 and e["e"] == "asg" and key(e["lhs"]) == "(*dbptr)" and key(e["rhs"]) == "db":
            return 3
        if e["e"] == "ret" and q == 1:
            return BAD
        return q
    check_automaton(ctx, "T1-open-exits", "destroy-or-publish", f, 0, step, None,
                    "after ldb_create every exit either publishes the handle or destroys it")
    pub = [(b, i, e) for (b, i, e) in f.events("asg") if key(e["lhs"]) == "(*dbptr)" and key(e["rhs"]) == "db"]
    ctx.require(len(pub) == 1, "ldb_open: handle publication not found")
    check_guard(ctx, "T2-open-after-recover", "publish", f, pub[0], [[("==", "rc", "0")]], "publishing the handle")
    for ds in find_calls(f, "ldb_destroy_internal"):
        check_guard(ctx, "T2-open-after-recover", "destroy-on-failure", f, ds, [[("!=", "rc", "0")]],
                    "destroying the handle")
    # save_manifest guard: the recovery edit is applied whenever recovery asked for it
    ap = one_call(ctx, f, "ldb_versions_apply")[0]
    must_pass_before_success(ctx, "T1-open-saves-manifest", "apply-when-asked", f,
                             lambda e: is_call(e, "ldb_recover"), lambda e: is_call(e, "ldb_versions_apply"),
                             "a recovery that changed the file set is recorded before open succeeds",
                             edge_pass=lambda lit: truth_of(lit[0], lit[1], "save_manifest") is False)


def check_log_file(ctx):
    f = ctx.fn("ldb_recover_log_file", DB)
    g = xgraph(ctx.P, f)
    st = [e for b, i, e in f.events("asg") if key(e["lhs"]) == "reporter.status"]
    ok = len(st) == 1
    if ok:
        r = strip_casts(st[0]["rhs"])
        ok = isinstance(r, dict) and r.get("k") == "cond" and key(r["c"]) == "db->options.paranoid_checks" and \
            key(r["a"]) == "(&rc)" and const_val(r["b"]) == 0
    ctx.check(ok, "T2-replay-paranoid", "reporter.status", f.name, f.loc,
              "dropped log bytes fail the open only with paranoid_checks",
              "reporter.status is %s" % [key(x["rhs"]) for x in st])
    mi = find_calls(f, "ldb_maybe_ignore_error")
    ctx.check(len(mi) >= 2 and all(argkey(e, 1) == "&rc" for b, i, e in mi), "T2-replay-paranoid", "ignore-sites",
              f.name, f.loc, "open/insert errors go through ldb_maybe_ignore_error",
              "ldb_maybe_ignore_error applied at %d sites" % len(mi))
    ins = one_call(ctx, f, "ldb_batch_insert_into")[0]
    never_after(ctx, "T1-replay-paranoid", "ignore-after-insert", f,
                lambda e: is_call(e, "ldb_batch_insert_into"),
                lambda e: e["e"] == "asg" and key(e["lhs"]) == "last_seq",
                "the insert status is filtered before the batch is counted",
                until=lambda e: is_call(e, "ldb_maybe_ignore_error"))
    m = ctx.fn("ldb_maybe_ignore_error", DB)
    stz = [(b, i, e) for (b, i, e) in m.events("asg") if key(e["lhs"]) == "(*status)"]
    ok = len(stz) == 1 and const_val(stz[0][2]["rhs"]) == 0 and \
        holds(xgraph(ctx.P, m).must_at(stz[0][0], stz[0][1]), ("==", "db->options.paranoid_checks", "0"))
    ctx.check(ok, "T2-replay-paranoid", "maybe_ignore", m.name, m.loc,
              "errors are cleared only when paranoid_checks is off", "ldb_maybe_ignore_error clears errors in paranoid mode")
    # short records are reported, not applied
    sc = one_call(ctx, f, "ldb_batch_set_contents")[0]
    from ..rules import holds_exact
    ctx.check(holds_exact(g.must_at(sc[0], sc[1]), (">=", "record.size", 12)), "T2-replay-record-size", "12", f.name,
              site(f, sc[2]), "a log record is applied iff it holds at least the 12-byte batch header (an empty batch is legal)",
              "the size guard of replayed log records is not `size >= 12`: %s" % fmt_atoms(g.must_at(sc[0], sc[1])))
    rd = one_call(ctx, f, "ldb_reader_init")[0][2]
    ctx.check(const_val(rd["a"][3]) not in (None, 0), "T2-replay-checksum", "reader_init", f.name, site(f, rd),
              "log replay verifies checksums", "log replay created with checksum verification off")


def check(ctx):
    from . import c02 as _c02c
    _c02c.check_gc(ctx)            # nothing is collected between a failed install and the latching of its error
    wal.check_block_tail(ctx)      # a reused log keeps the block grid
    from . import c02 as _c02
    _c02.check_env_read(ctx)      # replay sees the whole log
    wal.check_torn_tail(ctx)
    wal.check_reassembly(ctx)
    check_expected(ctx)
    check_open(ctx)
    check_log_file(ctx)
    c03.check_replay_set(ctx)      # replayed logs keep their numbers reserved (no older log may outrank a newer one)
    from . import c02
    c02.check_manifest(ctx)    # MANIFEST record durable before CURRENT names it (a crash inside recovery must stay recoverable)
    c17.check_current(ctx)
    c17.check_snapshot(ctx)    # the MANIFEST every open writes afresh re-emits every file of every level
    c02.check_tables(ctx)      # a table built during replay is durable before its log is given up
    c02.check_env(ctx)         # "durable" means: directory entry, buffered bytes and file contents reached the device
