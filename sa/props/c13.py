"""C13 Files are deleted exactly when nobody needs them.

Decided: the live set used by the garbage collector (pending outputs +
every file of every version in the version list, all levels); the keep
predicate per file type, by equivalence (both deleting a needed file and
leaking an unneeded one violate the property); every enumerator of the
file-type enum is handled; only parsed names are deleted and a deleted
table is evicted from the table cache; the pending-outputs protocol around
table creation; pinning of versions/memtables by readers and compactions;
the file-number allocator; who may run the collector.
Not decided: directory listings at quiescent points of real histories.
"""
from ..paths import xgraph
from ..program import const_val, key, strip_casts, vars_in
from ..rules import (BAD, always_before, argkey, call_ok_dominates, check_automaton, check_guard, dnf,
                     find_calls, fmt_atoms, holds, is_call, must_pass_before_success, need_call, never_after,
                     one_call, site, stores_of_field_in_program)
from . import c02, c08, lockmodel

EXPLANATION = ("Static decision of the file-lifetime clauses of C13: dataflow of the collector's live set, "
               "equivalence of each keep predicate with the specified one (DNF over canonical relational atoms), "
               "switch exhaustiveness over the file-type enum, call-order automata for the pending-outputs protocol "
               "and the reference pinning, and a who-writes table for the file-number allocator.")
RULE = "obligation = one keep predicate / enumerator / ordering / pairing / writer-table instance; non-trivial = compared or walked"
MIN_OBLIGATIONS = 50
DB = "src/db_impl.c"
VS = "src/version_set.c"

FILETYPES = ["LDB_FILE_LOG", "LDB_FILE_LOCK", "LDB_FILE_TABLE", "LDB_FILE_DESC", "LDB_FILE_CURRENT",
             "LDB_FILE_TEMP", "LDB_FILE_INFO"]


def _A(*atoms):
    from ..rules import _canon
    return frozenset(_canon(a) for a in atoms)


KEEP = {
    "LDB_FILE_LOG": frozenset([_A((">=", "number", "db->versions->log_number")),
                               _A(("==", "number", "db->versions->prev_log_number"))]),
    "LDB_FILE_DESC": frozenset([_A((">=", "number", "db->versions->manifest_file_number"))]),
    "LDB_FILE_TABLE": "live",
    "LDB_FILE_TEMP": "live",
    "LDB_FILE_CURRENT": 1, "LDB_FILE_LOCK": 1, "LDB_FILE_INFO": 1,
}


def switch_cases(fn, cond_key):
    """-> (dict enumerator -> first block id of its case body, has_default) for the switch on cond_key."""
    for blk in fn.blocks.values():
        if blk.term is not None and blk.term["k"] == "SwitchStmt" and key(blk.term.get("cond")) == cond_key:
            cases = {}
            dflt = False
            for s in blk.succ:
                if s is None:
                    continue
                lab = fn.blocks[s].label or {}
                if "case" in lab:
                    cases[lab["case"].get("enum") or str(const_val(lab["case"]))] = s
                elif lab.get("default"):
                    dflt = True
            return blk, cases, dflt
    return None, {}, False


def _fallthrough_body(fn, bid):
    """Follow empty fall-through case blocks to the block that holds the body."""
    seen = set()
    while bid not in seen:
        seen.add(bid)
        blk = fn.blocks[bid]
        if blk.ev or blk.term is not None:
            return blk
        nxt = [s for s in blk.succ if s is not None]
        if len(nxt) != 1:
            return blk
        bid = nxt[0]
    return fn.blocks[bid]


def check_gc(ctx):
    P = ctx.P
    f = ctx.fn("ldb_remove_obsolete_files", DB)
    g = xgraph(P, f)
    # live set = copy of pending outputs + files of all versions, computed before the listing, under the lock
    cp = need_call(ctx, "T1-gc-live-set", "copy-pending", f, ("ldb_rb_tree_copy", "rb_set64_copy"), "live set starts from pending outputs")
    af = need_call(ctx, "T1-gc-live-set", "add-version-files", f, "ldb_versions_add_files", "live set includes every version's files")
    if cp:
        ctx.check(argkey(cp[0][2], 0) == "&live" and argkey(cp[0][2], 1) == "&db->pending_outputs", "T1-gc-live-set",
                  "copy-args", f.name, site(f, cp[0][2]), "live = copy(db->pending_outputs)",
                  "live is copied from %s" % argkey(cp[0][2], 1))
    if af:
        ctx.check(argkey(af[0][2], 0) == "db->versions" and argkey(af[0][2], 1) == "&live", "T1-gc-live-set", "add-args",
                  f.name, site(f, af[0][2]), "ldb_versions_add_files(db->versions, &live)", "add_files arguments changed")
    always_before(ctx, "T1-gc-live-set", "live<listing", f,
                  lambda e: is_call(e, "ldb_versions_add_files"), lambda e: is_call(e, "ldb_get_children"),
                  "the live set is complete before the directory is listed")
    c08.one_section(ctx, "T3d-gc-section", "live+classify", f,
                    lambda e: is_call(e, ("ldb_rb_tree_copy", "rb_set64_copy", "ldb_versions_add_files", "ldb_get_children",
                                          "ldb_vector_push", "ldb_tables_evict")),
                    "live set, listing and classification happen in one section of the DB mutex", 4)
    # every ldb_filetype_t enumerator has its keep predicate (switch or if-chain alike: the
    # classification is specialised per enumerator value)
    from ..rules import assigned_under
    enums = sorted(n for n, v in P.enums.items() if v.get("enum") == "ldb_filetype")
    ctx.check(sorted(FILETYPES) == enums, "T6-filetype-exhaustive", "enum", "<program>", "src/filename.h",
              "ldb_filetype_t has the 7 known enumerators", "ldb_filetype_t enumerators are %s" % enums)
    uses_keep = lambda blk, cond: "keep" in vars_in(cond)
    ctx.require(any(blk.term is not None and "cond" in blk.term and uses_keep(blk, blk.term["cond"]) for blk in f.blocks.values()),
                "ldb_remove_obsolete_files: test of `keep` not found")
    keep_defs = {}
    for en in FILETYPES:
        val = P.enums.get(en, {}).get("v")
        ctx.require(val is not None, "enumerator %s not found" % en)
        defs = assigned_under(f, "keep", "type", int(val), uses_keep)
        keep_defs[en] = [{"rhs": d.get("rhs") if d["e"] == "asg" else d.get("init"), "l": d["l"], "e": d["e"]} for d in defs]
        ctx.check(len(defs) >= 1, "T6-filetype-exhaustive", "gc:" + en, f.name, f.loc,
                  "%s classified by the collector" % en, "file type %s reaches the keep test unclassified" % en)
    for en, want in sorted(KEEP.items()):
        found = keep_defs.get(en, [])
        if len(found) != 1 or found[0]["rhs"] is None:
            ctx.bad("T2-gc-keep-predicate", en, f.name, f.loc, "expected one definition of keep to reach the test for %s, found %d" % (en, len(found)))
            continue
        rhs = found[0]["rhs"]
        if want == 1:
            ok = const_val(rhs) == 1
            got = key(rhs)
        elif want == "live":
            r = strip_casts(rhs)
            ok = isinstance(r, dict) and r.get("k") == "call" and r.get("f") in ("ldb_rb_set64_has", "rb_set64_has") and \
                key(r["a"][0]) == "(&live)" and key(r["a"][1]) == "number"
            got = key(rhs)
        else:
            got = dnf(rhs)
            ok = got == want
            got = sorted(sorted(x) for x in got)
        ctx.check(ok, "T2-gc-keep-predicate", en, f.name, site(f, found[0]),
                  "keep predicate of %s is the specified one" % en,
                  "keep predicate of %s is %s" % (en, got), subject=en)
    # deletion only of parsed, not-kept names; evict accompanies table deletion
    push = one_call(ctx, f, "ldb_vector_push")
    b, i, e = push[0]
    atoms = g.must_at(b, i)
    ctx.check(holds(atoms, ("==", "keep", "0")) and holds(atoms, ("!=", ("CALL", "ldb_parse_filename"), "0")),
              "T2-gc-delete-guard", "push", f.name, site(f, e),
              "a name is scheduled for deletion only if parsed and not kept",
              "deletion scheduled without the parse/keep guard; facts %s" % fmt_atoms(atoms))
    ctx.check(argkey(e, 0) == "&to_delete" and argkey(e, 1) == "filename", "T2-gc-delete-guard", "push-args", f.name, site(f, e),
              "the listed name itself is scheduled", "scheduled value is %s" % argkey(e, 1))
    ev = need_call(ctx, "T1-gc-evict", "evict", f, "ldb_tables_evict", "a deleted table is evicted from the table cache")
    if ev:
        a2 = g.must_at(ev[0][0], ev[0][1])
        ctx.check(holds(a2, ("==", "keep", "0")) and holds(a2, ("==", "type", 2)) and argkey(ev[0][2], 1) == "number",
                  "T1-gc-evict", "evict-guard", f.name, site(f, ev[0][2]), "evict(number) for every table scheduled for deletion",
                  "table cache eviction no longer tied to table deletion")
        must_pass_before_success(ctx, "T1-gc-evict", "table-delete-implies-evict", f,
                                 lambda e: is_call(e, "ldb_vector_push"), lambda e: is_call(e, "ldb_tables_evict"),
                                 "every scheduled table is evicted", success=lambda e, st: True,
                                 reset=lambda e: is_call(e, "ldb_vector_push"),
                                 edge_pass=lambda lit: _ne_table(lit))
    rm = one_call(ctx, f, "ldb_remove_file")[0]
    jn = [x for x in find_calls(f, "ldb_join")]
    ctx.check(len(jn) == 1 and argkey(jn[0][2], 2) == "db->dbname" and argkey(jn[0][2], 3) == "filename" and
              argkey(rm[2], 0) == "path", "T5-gc-delete-path", "join", f.name, site(f, rm[2]),
              "only dbname/<scheduled name> is removed", "removal path construction changed")
    fd = [e for b, i, e in f.events("decl") if e["n"] == "filename"]
    srcs = sorted(key(e.get("init")) for e in fd)
    ctx.check(srcs == ["filenames[i]", "to_delete.items[i]"], "T5-gc-delete-path", "sources", f.name, f.loc,
              "names come from the listing / the schedule", "file names come from %s" % srcs)


def _ne_table(lit):
    from ..rules import rel_edge
    return rel_edge(lit[0], lit[1], "!=", "type", 2)


def check_add_files(ctx):
    f = ctx.fn("ldb_versions_add_files", VS)
    g = xgraph(ctx.P, f)
    put = need_call(ctx, "T1-live-set-walk", "put", f, ("ldb_rb_set64_put", "rb_set64_put"), "file numbers are added to the live set")
    if not put:
        return
    b, i, e = put[0]
    atoms = g.must_at(b, i)
    ctx.check(holds(atoms, ("!=", "v", "list")) and holds(atoms, ("<", "level", 7)) and not holds(atoms, ("<", "level", 6))
              and holds(atoms, ("<", "i", "files->length")), "T1-live-set-walk", "bounds", f.name, site(f, e),
              "every version of the list, every level, every file is visited",
              "live-set walk bounds changed; facts %s" % fmt_atoms(atoms))
    ctx.check(argkey(e, 0) == "live" and argkey(e, 1) == "file->number", "T1-live-set-walk", "value", f.name, site(f, e),
              "file->number goes into the live set", "live set receives %s" % argkey(e, 1))
    inits = {key(x["lhs"]): key(x["rhs"]) for b2, i2, x in f.events("asg") if x["op"] == "=" and key(x["lhs"]) in ("v", "level", "i")}
    # loop inits (first assignment of each): v = list->next (then v = v->next), level = 0, i = 0
    vs = sorted(key(x["rhs"]) for b2, i2, x in f.events("asg") if key(x["lhs"]) == "v")
    ls = [e2 for b2, i2, e2 in f.events("decl") if e2["n"] == "list"]
    fl = [e2 for b2, i2, e2 in f.events("decl") if e2["n"] in ("files", "file")]
    ok = vs == ["list->next", "v->next"] and ls and key(ls[0].get("init")) == "(&vset->dummy_versions)" and \
        sorted(key(x.get("init")) for x in fl) == ["(&v->files[level])", "files->items[i]"]
    ctx.check(ok, "T1-live-set-walk", "iteration", f.name, f.loc,
              "walk starts at dummy_versions.next and follows ->next; files come from v->files[level]",
              "live-set walk changed: v <- %s" % vs)
    zero = sorted(k for k in ("level", "i") if any(key(x["lhs"]) == k and const_val(x["rhs"]) == 0 for b2, i2, x in f.events("asg")))
    ctx.check(zero == ["i", "level"], "T1-live-set-walk", "from-zero", f.name, f.loc, "levels and files are walked from 0",
              "loop start changed")
    # versions are linked into that list when installed, unlinked only when destroyed
    av = ctx.fn("ldb_versions_append_version", VS)
    lk = sorted(key(x["lhs"]) for b2, i2, x in av.events("asg"))
    ctx.check(all(k in lk for k in ("v->prev", "v->next", "v->prev->next", "v->next->prev", "vset->current")),
              "T1-live-set-walk", "linked-on-install", av.name, av.loc, "an installed version is linked into the version list",
              "version list linking changed: %s" % lk)
    vc = ctx.fn("ldb_version_clear", VS)
    ul = sorted(key(x["lhs"]) for b2, i2, x in vc.events("asg") if "->" in key(x["lhs"]))
    ctx.check(ul == ["ver->next->prev", "ver->prev->next"], "T1-live-set-walk", "unlinked-on-destroy", vc.name, vc.loc,
              "a version leaves the list only in its destructor", "version unlinking changed: %s" % ul)
    vu = ctx.fn("ldb_version_unref", VS)
    ds = one_call(ctx, vu, "ldb_version_destroy")[0]
    check_guard(ctx, "T2-version-lifetime", "destroy-at-zero", vu, ds, [[("==", "ver->refs", "0")]],
                "destroying a version")
    fu = ctx.fn("ldb_filemeta_unref", "src/version_edit.c")
    for ev in find_calls(fu, ("ldb_filemeta_destroy", "ldb_filemeta_clear", "ldb_free")):
        check_guard(ctx, "T2-version-lifetime", "filemeta-free-at-zero", fu, ev, [[("<=", "re:\\w+->refs", 0)]],
                    "freeing file metadata")


def check_pending(ctx):
    P = ctx.P
    w0 = ctx.fn("ldb_write_level0_table", DB)
    oc = ctx.fn("ldb_open_compaction_output_file", DB)
    PUT = ("ldb_rb_set64_put", "rb_set64_put")
    DEL = ("ldb_rb_set64_del", "rb_set64_del")
    for fn, numvar, create in ((w0, "meta.number", "ldb_build_table"), (oc, "file_number", "ldb_truncfile_create")):
        put = [x for x in find_calls(fn, PUT) if argkey(x[2], 0) == "&db->pending_outputs"]
        ctx.check(len(put) == 1 and argkey(put[0][2], 1) == numvar, "T10-pending-protocol", "put:" + fn.name, fn.name, fn.loc,
                  "the new file number is entered into pending_outputs", "pending_outputs put changed in %s" % fn.name)
        al = [e for b, i, e in fn.events("asg") if key(e["lhs"]) == numvar]
        ctx.check(len(al) == 1 and key(al[0]["rhs"]) == "ldb_versions_new_file_number(db->versions)", "T10-pending-protocol",
                  "fresh-number:" + fn.name, fn.name, fn.loc, "the number is freshly allocated",
                  "%s is assigned from %s" % (numvar, [key(x["rhs"]) for x in al]))
        c08.one_section(ctx, "T3d-pending-section", fn.name, fn,
                        lambda e: is_call(e, "ldb_versions_new_file_number") or (is_call(e, PUT) and argkey(e, 0) == "&db->pending_outputs"),
                        "allocation and registration in pending_outputs happen in one section", 2)
        always_before(ctx, "T10-pending-protocol", "put<create:" + fn.name, fn,
                      lambda e: is_call(e, PUT) and argkey(e, 0) == "&db->pending_outputs", lambda e, c=create: is_call(e, c),
                      "the number is protected before the file is created")
    never_after(ctx, "T10-pending-protocol", "del-after-build", w0,
                lambda e: is_call(e, DEL) and argkey(e, 0) == "&db->pending_outputs", lambda e: is_call(e, "ldb_build_table"),
                "the level-0 output is un-protected only after it was built")
    dl = [x for x in find_calls(w0, DEL) if argkey(x[2], 0) == "&db->pending_outputs"]
    ctx.check(len(dl) == 1 and argkey(dl[0][2], 1) == "meta.number", "T10-pending-protocol", "del:level0", w0.name, w0.loc,
              "pending entry of the level-0 output is removed", "pending del changed in ldb_write_level0_table")
    cc = ctx.fn("ldb_cleanup_compaction", DB)
    dl = [x for x in find_calls(cc, DEL) if argkey(x[2], 0) == "&db->pending_outputs"]
    od = [e for b, i, e in cc.events("decl") if e["n"] == "out"]
    ok = len(dl) == 1 and argkey(dl[0][2], 1) == "out->number" and od and key(od[0].get("init")) == "state->outputs.items[i]"
    ctx.check(ok, "T10-pending-protocol", "del:compaction", cc.name, cc.loc,
              "every compaction output is removed from pending_outputs at cleanup", "compaction cleanup of pending_outputs changed")
    if ok:
        atoms = xgraph(P, cc).must_at(dl[0][0], dl[0][1])
        ctx.check(holds(atoms, ("<", "i", "state->outputs.length")), "T10-pending-protocol", "del:all-outputs", cc.name,
                  site(cc, dl[0][2]), "the loop covers all outputs", "not all outputs are un-protected")
    # outputs recorded in the state are the allocated numbers
    vp = [x for x in find_calls(oc, "ldb_vector_push") if argkey(x[2], 0) == "&state->outputs"]
    ctx.check(len(vp) == 1 and key(vp[0][2]["a"][1]) == "ldb_output_create(file_number)", "T10-pending-protocol",
              "outputs-recorded", oc.name, oc.loc, "the output list records the protected number",
              "output recording changed")
    # cleanup runs after install (never before): in ldb_background_compaction
    bc = ctx.fn("ldb_background_compaction", DB)
    always_before(ctx, "T10-pending-protocol", "install<cleanup", bc, lambda e: is_call(e, "ldb_do_compaction_work"),
                  lambda e: is_call(e, "ldb_cleanup_compaction"), "pending entries are dropped only after the compaction work (incl. install) ended")
    always_before(ctx, "T10-pending-protocol", "cleanup<gc", bc, lambda e: is_call(e, "ldb_cleanup_compaction"),
                  lambda e: is_call(e, "ldb_remove_obsolete_files"), "garbage collection runs after the compaction state was cleaned up")
    always_before(ctx, "T10-pending-protocol", "release-inputs<gc", bc, lambda e: is_call(e, "ldb_compaction_release_inputs"),
                  lambda e: is_call(e, "ldb_remove_obsolete_files"), "the input version is released before garbage collection")


def check_cache_pins(ctx):
    """A table (or block) obtained through a cache handle is used only while
    the handle is held: the shard mutex is the only lock an evicting thread
    takes, so after the release another thread may free the object."""
    P = ctx.P
    from ..rules import never_after
    f = ctx.fn("ldb_versions_approximate_offset", VS)
    ti = [e for b, i, e in f.events("call") if is_call(e, "ldb_tables_iterate")]
    ctx.require(len(ti) == 1, "approximate_offset: ldb_tables_iterate call not found")
    outp = argkey(ti[0], len(ti[0]["a"]) - 1)
    ctx.require(outp is not None and outp.startswith("&"), "approximate_offset: table out-parameter not found")
    tv = outp[1:]
    isit = lambda t: isinstance(strip_casts(t), dict) and strip_casts(t).get("k") == "call" and strip_casts(t).get("f") == "ldb_tables_iterate"
    itv = [key(e["lhs"]) for b, i, e in f.events("asg") if isit(e["rhs"])] + \
          [e["n"] for b, i, e in f.events("decl") if "init" in e and isit(e["init"])]
    ctx.require(len(itv) == 1, "approximate_offset: pinning iterator variable not found")
    never_after(ctx, "T10-pinning", "approximate_offset:table-used-while-pinned", f,
                lambda e: is_call(e, "ldb_iter_destroy") and argkey(e, 0) == itv[0],
                lambda e: e["e"] == "call" and any(_mentions(a, tv) for a in e.get("a", [])) and not is_call(e, "ldb_tables_iterate"),
                "the table reached through the cache is used only before the iterator that pins it is destroyed",
                until=lambda e: is_call(e, "ldb_tables_iterate"))
    tg = ctx.fn("ldb_tables_get", "src/table_cache.c")
    never_after(ctx, "T10-pinning", "tables_get:table-used-while-pinned", tg,
                lambda e: is_call(e, "ldb_lru_release") and argkey(e, 1) == "handle",
                lambda e: e["e"] == "call" and any(_mentions(a, "table") for a in e.get("a", [])),
                "the table is searched only while its cache handle is held")


def _mentions(tree, var):
    from ..program import vars_in
    return var in vars_in(tree)


PINNED_SOURCES = {"db->versions->current": "ldb_version_ref", "db->mem": "ldb_memtable_ref", "db->imm": "ldb_memtable_ref"}


def check_version_pointer_lifetime(ctx):
    """A pointer copied from versions->current, db->mem or db->imm is only
    used while the DB mutex is still held or after the object was referenced:
    the background thread may install a new version / retire the memtable and
    free the old one as soon as the mutex is released."""
    P = ctx.P
    n = 0
    for f in P.all_functions:
        if f.file != DB:
            continue
        holders = {}
        for b, i, e in f.events():
            src = e.get("rhs") if e["e"] == "asg" else (e.get("init") if e["e"] == "decl" else None)
            if src is not None and key(src) in PINNED_SOURCES:
                v = key(e["lhs"]) if e["e"] == "asg" else e["n"]
                if v.isidentifier():
                    holders[v] = key(src)
        for v, srck in sorted(holders.items()):
            n += 1
            refname = PINNED_SOURCES[srck]

            def uses(e, v=v):
                if e["e"] == "call" and not is_call(e, ("ldb_version_ref", "ldb_version_unref", "ldb_memtable_ref", "ldb_memtable_unref")):
                    return any(_mentions(a, v) for a in e.get("a", []))
                if e["e"] in ("mem", "deref"):
                    return _mentions(e.get("b") or e.get("x"), v)
                return False

            def step(q, e, st, b, i, v=v, srck=srck, refname=refname):
                if q == BAD:
                    return q
                held, ref = q
                if e["e"] in ("asg", "decl") and key(e.get("rhs") if e["e"] == "asg" else e.get("init")) == srck and \
                        (key(e["lhs"]) if e["e"] == "asg" else e["n"]) == v:
                    return (True, False)
                if is_call(e, refname) and argkey(e, 0) == v:
                    return (held, True)
                if is_call(e, "ldb_mutex_unlock") and argkey(e, 0) == "&db->mutex":
                    return (False, ref)
                if is_call(e, "ldb_mutex_lock") and argkey(e, 0) == "&db->mutex":
                    return (True, ref)
                if uses(e) and not held and not ref:
                    return BAD
                return q
            check_automaton(ctx, "T10-pinning", "version-pointer:%s:%s" % (f.name, v), f, (True, False), step, None,
                            "`%s` (a copy of %s) is used only under the mutex or after %s" % (v, srck, refname))
    ctx.require(n >= 4, "copies of versions->current / db->mem / db->imm not found (%d)" % n)


def check_open_gc_order(ctx):
    """The collector computes its delete list under the mutex and unlinks
    without it; at open that is safe only because no background work was
    scheduled yet (a compaction started earlier may be handed the number of an
    orphan file that the stale list is about to unlink)."""
    f = ctx.fn("ldb_open", DB)
    never_after(ctx, "T1-gc-before-background", "open", f, lambda e: is_call(e, "ldb_maybe_schedule_compaction"),
                lambda e: is_call(e, "ldb_remove_obsolete_files"),
                "the open-time collection runs before the first background work is scheduled")


def check_pinning(ctx):
    P = ctx.P
    check_cache_pins(ctx)
    it = ctx.fn("ldb_internal_iterator", DB)
    reg = one_call(ctx, it, "ldb_iter_register_cleanup")[0][2]
    ctx.check([argkey(reg, k) for k in range(3)] == ["internal_iter", "cleanup_iter_state", "cleanup"], "T10-pinning",
              "iterator-cleanup", it.name, site(it, reg), "the returned iterator releases its pins when destroyed",
              "cleanup registration changed")
    rets = [key(e.get("x")) for b, i, e in it.events("ret")]
    ctx.check(rets == ["internal_iter"], "T10-pinning", "iterator-returned", it.name, it.loc,
              "the iterator carrying the cleanup is the one returned", "returned value is %s" % rets)
    refs = sorted(argkey(e, 0) for b, i, e in find_calls(it, ("ldb_memtable_ref", "ldb_version_ref")))
    ctx.check(refs == ["current", "db->imm", "db->mem"], "T10-pinning", "iterator-pins", it.name, it.loc,
              "mem, imm and the current version are pinned", "pins are %s" % refs)
    im = [x for x in find_calls(it, "ldb_memtable_ref") if argkey(x[2], 0) == "db->imm"]
    if im:
        check_guard(ctx, "T10-pinning", "imm-pin-guard", it, im[0], [[("!=", "db->imm", "0")]], "pinning imm")
    isd = ctx.fn("ldb_istate_destroy", DB)
    un = sorted(argkey(e, 0) for b, i, e in find_calls(isd, ("ldb_memtable_unref", "ldb_version_unref")))
    ctx.check(un == ["state->imm", "state->mem", "state->version"], "T10-pinning", "iterator-unpins", isd.name, isd.loc,
              "exactly the pinned objects are released", "released %s" % un)
    # compactions pin their input version
    for fn_name in ("ldb_versions_pick_compaction", "ldb_versions_compact_range"):
        f = ctx.fn(fn_name, VS)
        st = [(b, i, e) for (b, i, e) in f.events("asg") if key(e["lhs"]) == "c->input_version"]
        rf = [x for x in find_calls(f, "ldb_version_ref") if argkey(x[2], 0) == "c->input_version"]
        ctx.check(len(st) == 1 and key(st[0][2]["rhs"]) == "vset->current" and len(rf) == 1, "T10-pinning",
                  "compaction-input:" + fn_name, f.name, f.loc, "the compaction pins the version it reads",
                  "input version pinning changed in %s" % fn_name)
        if st and rf:
            must_pass_before_success(ctx, "T10-pinning", "compaction-input-ref:" + fn_name, f,
                                     lambda e: e["e"] == "asg" and key(e["lhs"]) == "c->input_version",
                                     lambda e: is_call(e, "ldb_version_ref") and argkey(e, 0) == "c->input_version",
                                     "every compaction that records an input version references it",
                                     success=lambda e, st: True)
    for fn_name in ("ldb_compaction_release_inputs", "ldb_compaction_clear"):
        f = ctx.fn(fn_name, VS)
        un = [x for x in find_calls(f, "ldb_version_unref") if argkey(x[2], 0) == "c->input_version"]
        ctx.check(len(un) == 1, "T10-pinning", "compaction-release:" + fn_name, f.name, f.loc,
                  "the input version is released", "release of the input version changed")
        if un:
            check_guard(ctx, "T10-pinning", "compaction-release-guard:" + fn_name, f, un[0],
                        [[("!=", "c->input_version", "0")]], "releasing the input version")
    ri = ctx.fn("ldb_compaction_release_inputs", VS)
    nul = [e for b, i, e in ri.events("asg") if key(e["lhs"]) == "c->input_version" and const_val(e["rhs"]) == 0]
    ctx.check(len(nul) == 1, "T10-pinning", "compaction-release-once", ri.name, ri.loc,
              "the pointer is cleared so that it is released once", "input_version not cleared after release")
    # approximate sizes / compact_memtable pin the version they use
    for fn_name, var in (("ldb_approximate_sizes", "v"), ("ldb_compact_memtable", "base")):
        f = ctx.fn(fn_name, DB)
        r = sorted(argkey(e, 0) for b, i, e in find_calls(f, "ldb_version_ref"))
        u = sorted(argkey(e, 0) for b, i, e in find_calls(f, "ldb_version_unref"))
        ctx.check(r == [var] and u == [var], "T10-pinning", "pair:" + fn_name, f.name, f.loc,
                  "version pinned and released", "pin/unpin changed: %s/%s" % (r, u))
        must_pass_before_success(ctx, "T10-pinning", "pair-all-exits:" + fn_name, f,
                                 lambda e: is_call(e, "ldb_version_ref"), lambda e: is_call(e, "ldb_version_unref"),
                                 "the pin is released on every exit", success=lambda e, st: True)
    g = ctx.fn("ldb_get", DB)
    for a, b2 in (("ldb_memtable_ref", "ldb_memtable_unref"), ("ldb_version_ref", "ldb_version_unref")):
        must_pass_before_success(ctx, "T10-pinning", "pair-all-exits:ldb_get:" + a, g,
                                 lambda e, a=a: is_call(e, a), lambda e, b2=b2: is_call(e, b2),
                                 "pins taken by ldb_get are released on every exit", success=lambda e, st: True)


def check_allocator(ctx):
    P = ctx.P
    owners = {}
    for f, b, i, e in stores_of_field_in_program(P, "ldb_versions_s", "next_file_number"):
        owners.setdefault(f.name, []).append((f, b, i, e))
    want = {"ldb_versions_init", "ldb_versions_new_file_number", "ldb_versions_mark_file_number",
            "ldb_versions_reuse_file_number", "ldb_versions_recover"}
    ctx.check(set(owners) == want, "T5-allocator-writers", "next_file_number", "<program>", VS,
              "the allocator counter is written only by %s" % sorted(owners),
              "next_file_number is written by %s" % sorted(owners))
    nf = ctx.fn("ldb_versions_new_file_number", VS)
    r = [e for b, i, e in nf.events("ret")]
    from ..rules import value_source, incr_events, never_after
    rk = key(r[0].get("x")) if len(r) == 1 else None
    direct = rk == "(vset->next_file_number++)"
    # or: the old value is read into a local, the counter is stepped by one afterwards, the local is returned
    via_local = len(r) == 1 and value_source(nf, r[0].get("x")) == "vset->next_file_number" and \
        len(incr_events(nf, "vset->next_file_number", 1)) == 1
    if via_local and not direct:
        rd = [(b, i, e) for (b, i, e) in nf.events() if (e["e"] == "asg" and key(e["rhs"]) == "vset->next_file_number") or
              (e["e"] == "decl" and key(e.get("init")) == "vset->next_file_number")]
        inc = incr_events(nf, "vset->next_file_number", 1)
        via_local = len(rd) == 1 and never_after(ctx, "T6-allocator", "read-before-step", nf,
                                                  lambda e: incr_events(nf, "vset->next_file_number", 1)[0][2].get("_of", incr_events(nf, "vset->next_file_number", 1)[0][2]) is e,
                                                  lambda e: e is rd[0][2], "the number handed out is read before the counter is stepped")
    ctx.check(direct or via_local, "T6-allocator", "post-increment", nf.name,
              nf.loc, "a number is handed out once (the old value is returned, the counter steps by one)",
              "new_file_number returns %s" % [key(x.get("x")) for x in r])
    mk = ctx.fn("ldb_versions_mark_file_number", VS)
    for f, b, i, e in owners.get("ldb_versions_mark_file_number", []):
        ctx.check(key(e["rhs"]) == "(number + 1)" and holds(xgraph(P, mk).must_at(b, i), ("<=", "vset->next_file_number", "number")),
                  "T6-allocator", "mark-raises", mk.name, site(mk, e), "mark only ever raises the counter above the number",
                  "mark_file_number changed")
    ru = ctx.fn("ldb_versions_reuse_file_number", VS)
    for f, b, i, e in owners.get("ldb_versions_reuse_file_number", []):
        ctx.check(key(e["rhs"]) == "file_number" and
                  holds(xgraph(P, ru).must_at(b, i), ("==", "vset->next_file_number", "(file_number + 1)")),
                  "T6-allocator", "reuse-only-last", ru.name, site(ru, e), "only the most recently allocated number can be given back",
                  "reuse_file_number guard changed")
    callers = P.callers_of("ldb_versions_reuse_file_number")
    ctx.check({f.name for f, b, i, e in callers} == {"ldb_make_room_for_write"}, "T5-allocator-writers", "reuse-callers",
              "<program>", DB, "numbers are given back only by ldb_make_room_for_write",
              "reuse_file_number is called by %s" % sorted({f.name for f, b, i, e in callers}))
    for f, b, i, e in callers:
        check_guard(ctx, "T2-allocator", "reuse-on-failed-create", f, (b, i, e), [[("!=", "rc", "0")]],
                    "giving a file number back")
        ctx.check(argkey(e, 1) == "new_log_number", "T2-allocator", "reuse-own-number", f.name, site(f, e),
                  "the number given back is the one just allocated", "number given back is %s" % argkey(e, 1))


def check(ctx):
    from . import c20 as _c20
    _c20.check_parse_exact(ctx)    # the collector only ever judges names the library itself produces
    _c20.check_tools(ctx)          # destroy / backup / copy touch a database's files only under its lock, and its LOCK file last
    c02.check_manifest(ctx)        # files are collected only after the edit that retires them is durable
    check_version_pointer_lifetime(ctx)
    check_open_gc_order(ctx)
    from . import c14
    c14.check_level_loops(ctx)     # the live set covers every level
    check_gc(ctx)
    check_add_files(ctx)
    check_pending(ctx)
    check_pinning(ctx)
    check_allocator(ctx)
    c02.check_gc(ctx)
    from . import c01
    c01.check_trivial_move(ctx)    # inputs of a compaction leave the version in the install edit; a moved file stays live
