"""C07 Iterators give a consistent, ordered, complete view in both directions.

Decided (structural necessary conditions only, each by enumerating the call
sequences of a small function under every valuation of the few predicates it
branches on - "is the child valid", "sign of the comparison", "is this the
current child" - and comparing them with the composition a sorted map
dictates; independent of how the branches are spelled):
  * the lcdb-specific positioning helpers seek_ge / seek_gt / seek_le /
    seek_lt are the right compositions of seek / next / prev / last;
  * the merging iterator positions every child on first / last / seek, picks
    the smallest (largest) valid child by a strict comparison, records the
    direction it was positioned in, and on a direction change re-positions
    every non-current child relative to the current key before stepping;
  * the two-level iterator steps and skips empty blocks in the direction of
    the operation, re-seeks the data block with the same target, and the
    forward and backward halves are mirror images of each other;
  * the user-level iterator hides entries newer than its sequence (shared
    with C06) and an internal iterator pins the memtables and the version it
    reads for as long as it lives (shared with C08 / C13).
Not decided: the position after a concrete call sequence, agreement of forward
and backward traversals on concrete data, the block-level binary search, the
direction-switch logic of the user-level iterator (db_iter.c) beyond the
visibility filter.  These quantify over runtime keys and positions.
"""
from ..build import AnalysisBroken
from ..paths import xgraph
from ..program import const_val, key, strip_casts
from ..rules import (Unsupported, argkey, eval_tree, find_calls, fmt_atoms, holds, incr_events, is_call,
                     must_pass_before_success, sequences_under, site)

EXPLANATION = ("Composition tables: for each small iterator function, the set of child-iterator call sequences under every "
               "valuation of its branch predicates (valid / comparison sign / current child) is enumerated on the CFG and "
               "compared with the sequences a sorted map dictates; mirror symmetry of the forward and backward halves; "
               "strict-comparison selection of the merged head; plus the visibility filter and pinning rules shared with "
               "C06 / C08 / C13.")
RULE = ("obligation = one (function, valuation) row of a composition table, one mirror pair, one selection / loop-coverage "
        "instance; non-trivial = the function's paths were enumerated under that valuation")
MIN_OBLIGATIONS = 45

IT = "src/table/iterator.c"
MG = "src/table/merger.c"
TL = "src/table/two_level_iterator.c"

MOVES = ("seek", "next", "prev", "first", "last")


def _ak(a):
    a = strip_casts(a)
    if isinstance(a, dict) and a.get("k") == "un" and a.get("op") == "&":
        return "&" + key(a["x"])
    return key(a)


def _callee(e):
    """Short name of the callee of a call event / node: function name or the
    last field of a function-pointer expression."""
    if e.get("f"):
        return e["f"]
    fp = strip_casts(e.get("fp"))
    while isinstance(fp, dict) and fp.get("k") == "un":
        fp = strip_casts(fp.get("x"))
    if isinstance(fp, dict) and fp.get("k") == "mem":
        return fp["f"]
    return None


def _vt_token(e):
    """Token for a call through the iterator vtable: ('seek', 'target') ..."""
    if e["e"] != "call":
        return None
    n = _callee(e)
    if n in MOVES and e.get("fp") is not None:
        return (n,) + tuple(_ak(a) for a in e.get("a", [])[1:])
    return None


def _valuation(env):
    """env: {'valid': 0/1, 'cmp': -1/0/1, ...}: value of calls by callee short
    name (with `compare`-like callees mapped to 'cmp') and of listed keys."""
    def val(t):
        if t.get("k") == "call":
            n = _callee(t) or ""
            if "compare" in n and "cmp" in env:
                return env["cmp"]
            if n.endswith("valid") and "valid" in env:
                vk = "valid:" + (key(t["a"][0]) if t.get("a") else "")
                if vk in env:
                    return env[vk]
                return env["valid"]
        kk = key(t)
        if kk in env:
            return env[kk]
        return None
    return val


def _fmt(seqs):
    return sorted([" ".join("%s(%s)" % (x[0], ",".join(x[1:])) if isinstance(x, tuple) else x for x in s) or "-" for s in seqs])


def _table(ctx, rule, fn, rows, item, start=None, stop=None, envs_extra=None):
    for name, env, want in rows:
        try:
            got = sequences_under(fn, item, _valuation(env), start=start, stop=stop)
        except Unsupported as u:
            raise AnalysisBroken("%s: %s" % (fn.name, u))
        ctx.check(got == {tuple(want)}, rule, "%s:%s" % (fn.name, name), fn.name, fn.loc,
                  "%s: %s -> %s" % (fn.name, name, _fmt([want])[0]),
                  "%s under %s performs %s, a sorted map dictates %s" % (fn.name, name, _fmt(got), _fmt([want])[0]),
                  subject="%s:%s" % (fn.name, name))


def check_seek_helpers(ctx):
    T = ("target",)
    V = [("invalid", {"valid": 0}), ("valid,key<target", {"valid": 1, "cmp": -1}), ("valid,key==target", {"valid": 1, "cmp": 0}),
         ("valid,key>target", {"valid": 1, "cmp": 1})]
    want = {
        "ldb_iter_seek_ge": {n: [("seek",) + T] for n, _ in V},
        "ldb_iter_seek_gt": {"invalid": [("seek",) + T], "valid,key<target": [("seek",) + T],
                             "valid,key==target": [("seek",) + T, ("next",)], "valid,key>target": [("seek",) + T]},
        "ldb_iter_seek_le": {"invalid": [("seek",) + T, ("last",)], "valid,key<target": [("seek",) + T],
                             "valid,key==target": [("seek",) + T], "valid,key>target": [("seek",) + T, ("prev",)]},
        "ldb_iter_seek_lt": {"invalid": [("seek",) + T, ("last",)], "valid,key<target": [("seek",) + T, ("prev",)],
                             "valid,key==target": [("seek",) + T, ("prev",)], "valid,key>target": [("seek",) + T, ("prev",)]},
    }
    for fname, tab in sorted(want.items()):
        f = ctx.fn(fname, IT)
        # after seek(target) the child stands on the first key >= target: "key < target" cannot occur while valid,
        # so that row only has to be *some* composition the others allow; it is compared like the others because
        # today's code does not distinguish it
        _table(ctx, "T12-seek-composition", f, [(n, env, tab[n]) for n, env in V], _vt_token)
    ic = ctx.fn("ldb_iter_compare", IT)
    calls = [e for b, i, e in ic.events("call") if "compare" in (_callee(e) or "")]
    d = {e["n"]: key(e.get("init")) for b, i, e in ic.events("decl")}
    ok = len(calls) == 1 and argkey(calls[0], 1) in ("&x",) and argkey(calls[0], 2) == "key" and \
        "key" in (d.get("x") or "") and "iter->ptr" in (d.get("x") or "")
    ctx.check(ok, "T12-seek-composition", "ldb_iter_compare:orientation", ic.name, ic.loc,
              "ldb_iter_compare(iter, k) is compare(key(iter), k)", "ldb_iter_compare compares %s" %
              ([argkey(c, k) for c in calls for k in (1, 2)],))


def _wrap_token(e):
    """Token for ldb_wrapiter_<move>(child[, arg])."""
    if e["e"] != "call" or not e.get("f"):
        return None
    n = e["f"]
    if n.startswith("ldb_wrapiter_") and n[len("ldb_wrapiter_"):] in MOVES:
        return (n[len("ldb_wrapiter_"):],) + tuple(_ak(a) for a in e.get("a", []))
    if n in ("ldb_mergeiter_find_smallest", "ldb_mergeiter_find_largest", "ldb_twoiter_init_data_block",
             "ldb_twoiter_skip_forward", "ldb_twoiter_skip_backward", "ldb_twoiter_set_data_iter"):
        return (n.split("_", 2)[2],) + tuple(_ak(a) for a in e.get("a", [])[1:])
    return None


def _dir_token(e):
    t = _wrap_token(e)
    if t is not None:
        return t
    if e["e"] == "asg" and key(e["lhs"]) == "mi->direction":
        return ("direction=%s" % const_val(e["rhs"]),)
    return None


def _defs(f, name):
    """Keys of everything assigned to local `name` (initialiser or assignment)."""
    out = []
    for b, i, e in f.events():
        if e["e"] == "decl" and e["n"] == name and "init" in e:
            out.append(key(e["init"]))
        elif e["e"] == "asg" and key(e["lhs"]) == name:
            out.append(key(e["rhs"]))
    return out


def _all_children_loop(ctx, rule, f, call_pred, what):
    """A call on &mi->children[i] sits in a loop i = 0 .. mi->n - 1 (or the
    reverse) that visits every child."""
    g = xgraph(ctx.P, f)
    sites = [(b, i, e) for (b, i, e) in f.events("call") if call_pred(e)]
    if not sites:
        ctx.bad(rule, "%s:all-children" % f.name, f.name, f.loc, "%s is not performed at all" % what)
        return
    for b, i, e in sites:
        atoms = g.must_at(b, i)
        up = holds(atoms, ("<", "i", "mi->n")) and any(const_val(x["rhs"]) == 0 for _, _, x in f.events("asg") if key(x["lhs"]) == "i") \
            and bool(incr_events(f, "i", 1))
        down = holds(atoms, (">=", "i", 0)) and any(key(x["rhs"]) == "(mi->n - 1)" for _, _, x in f.events("asg") if key(x["lhs"]) == "i") \
            and bool(incr_events(f, "i", -1))
        ctx.check(up or down, rule, "%s:all-children@%s" % (f.name, e["l"].split(":")[1]), f.name, site(f, e),
                  "%s for every child (i over 0 .. n-1)" % what, "%s does not cover every child; facts %s" % (what, fmt_atoms(atoms)))


FWD, REV = 0, 1


def check_merger(ctx):
    P = ctx.P
    # positioning: every child moved, head selected, direction recorded
    for fname, move, pick, direction in (("ldb_mergeiter_first", "first", "find_smallest", FWD),
                                         ("ldb_mergeiter_last", "last", "find_largest", REV),
                                         ("ldb_mergeiter_seek", "seek", "find_smallest", FWD)):
        f = ctx.fn(fname, MG)
        _all_children_loop(ctx, "T12-merge-composition", f,
                           lambda e, m=move: is_call(e, "ldb_wrapiter_" + m) and argkey(e, 0) == "&mi->children[i]",
                           "ldb_wrapiter_%s(child)" % move)
        if move == "seek":
            sk = [e for b, i, e in f.events("call") if is_call(e, "ldb_wrapiter_seek")]
            ctx.check(all(argkey(e, 1) == "target" for e in sk), "T12-merge-composition", fname + ":target", f.name, f.loc,
                      "children are sought to the caller's target", "children sought to %s" % [argkey(e, 1) for e in sk])
        tail = sequences_under(f, lambda e: _dir_token(e) if (_dir_token(e) or ("x",))[0] in (pick, "find_smallest", "find_largest") or
                               (_dir_token(e) or ("x",))[0].startswith("direction") else None, _valuation({}))
        tails = {s for s in tail if "<loop>" not in s}
        want = {(("%s" % pick,), ("direction=%d" % direction,))}
        ctx.check(tails == want, "T12-merge-composition", fname + ":pick-and-direction", f.name, f.loc,
                  "after positioning the children the %s is selected and the direction is recorded as %s" %
                  ("smallest" if pick == "find_smallest" else "largest", "forward" if direction == FWD else "reverse"),
                  "%s ends with %s, expected %s" % (fname, _fmt(tails), _fmt(want)))
    # selection of the head
    for fname, sign, var in (("ldb_mergeiter_find_smallest", "<", "smallest"), ("ldb_mergeiter_find_largest", ">", "largest")):
        f = ctx.fn(fname, MG)
        g = xgraph(P, f)
        sel = [(b, i, e) for (b, i, e) in f.events("asg") if key(e["lhs"]) == var and key(e["rhs"]) == "child"]
        ctx.require(len(sel) >= 1, "%s: selection store not found" % fname)
        for b, i, e in sel:
            atoms = g.must_at(b, i)
            valid = holds(atoms, ("!=", ("CALL", "ldb_wrapiter_valid"), "0"))
            first = holds(atoms, ("==", var, "0"))
            better = holds(atoms, (sign, "re:.*compare.*\\(&child_key\\), \\(&%s_key\\)\\)#\\d+" % var, "0"))
            ctx.check(valid and (first or better), "T12-merge-selection", "%s@%s" % (fname, e["l"].split(":")[1]), f.name, site(f, e),
                      "a child becomes the head only if it is valid and it is the first valid one or compares strictly %s the head so far" %
                      ("below" if sign == "<" else "above"),
                      "head selection guard changed; facts %s" % fmt_atoms(atoms))
        d = {n: _defs(f, n) for n in ("child_key", var + "_key", "child")}
        ctx.check(d["child_key"] == ["ldb_wrapiter_key(child)"] and d[var + "_key"] == ["ldb_wrapiter_key(%s)" % var] and
                  d["child"] == ["(&mi->children[i])"], "T12-merge-selection", fname + ":keys", f.name, f.loc,
                  "the comparison is between the child's key and the head's key", "keys compared: %s" % d)
        cur = [key(e["rhs"]) for b, i, e in f.events("asg") if key(e["lhs"]) == "mi->current"]
        ctx.check(cur == [var], "T12-merge-selection", fname + ":current", f.name, f.loc, "the selected child becomes current",
                  "mi->current set from %s" % cur)
        _all_children_loop(ctx, "T12-merge-selection", f, lambda e: is_call(e, "ldb_wrapiter_valid") and argkey(e, 0) == "child",
                           "the validity test of each child")
    # stepping with a possible direction change
    for fname, wanted, step, pick in (("ldb_mergeiter_next", FWD, "next", "find_smallest"), ("ldb_mergeiter_prev", REV, "prev", "find_largest")):
        f = ctx.fn(fname, MG)
        in_loop = lambda e: e["e"] == "decl" and e["n"] == "child"
        end_iter = lambda e: False
        rows = []
        if wanted == FWD:
            per = {"current child": [], "other,invalid": [("seek", "child", "&mi_key")],
                   "other,valid,equal": [("seek", "child", "&mi_key"), ("next", "child")],
                   "other,valid,greater": [("seek", "child", "&mi_key")]}
        else:
            per = {"current child": [], "other,invalid": [("seek", "child", "&mi_key"), ("last", "child")],
                   "other,valid,equal": [("seek", "child", "&mi_key"), ("prev", "child")],
                   "other,valid,greater": [("seek", "child", "&mi_key"), ("prev", "child")]}
        envs = {"current child": {"(child != mi->current)": 0, "(child == mi->current)": 1},
                "other,invalid": {"(child != mi->current)": 1, "(child == mi->current)": 0, "valid": 0},
                "other,valid,equal": {"(child != mi->current)": 1, "(child == mi->current)": 0, "valid": 1, "cmp": 0},
                "other,valid,greater": {"(child != mi->current)": 1, "(child == mi->current)": 0, "valid": 1, "cmp": 1 if wanted == FWD else -1}}
        ctx.require(any(in_loop(e) for b, i, e in f.events("decl")), "%s: per-child re-positioning loop not found" % fname)
        for name in sorted(per):
            try:
                got = sequences_under(f, _wrap_token, _valuation(envs[name]), start=in_loop)
            except Unsupported as u:
                raise AnalysisBroken("%s: %s" % (fname, u))
            # one iteration: cut at the loop back edge / at the step on the current child after the loop
            iters = set()
            for s in got:
                cut = []
                for x in s:
                    if x == "<loop>" or (isinstance(x, tuple) and len(x) > 1 and x[1] == "mi->current") or \
                            (isinstance(x, tuple) and x[0] in ("find_smallest", "find_largest")):
                        break
                    cut.append(x)
                iters.add(tuple(cut))
            ctx.check(iters == {tuple(per[name])}, "T12-merge-composition", "%s:switch:%s" % (fname, name), f.name, f.loc,
                      "on a direction change a child (%s) is re-positioned by %s" % (name, _fmt([per[name]])[0]),
                      "on a direction change a child (%s) is re-positioned by %s, a sorted map dictates %s" %
                      (name, _fmt(iters), _fmt([per[name]])[0]), subject="%s:switch:%s" % (fname, name))
        _all_children_loop(ctx, "T12-merge-composition", f, lambda e: is_call(e, "ldb_wrapiter_seek") and argkey(e, 0) == "child",
                           "the re-positioning of each non-current child")
        ctx.check(_defs(f, "mi_key") == ["ldb_mergeiter_key(mi)"] and _defs(f, "child") == ["(&mi->children[i])"], "T12-merge-composition",
                  fname + ":switch-key", f.name, f.loc, "children are re-positioned relative to the current key",
                  "re-positioning key is %s" % _defs(f, "mi_key"))
        # whole function under "direction already as wanted" / "direction differs"
        for name, env, want in (("same direction", {"(mi->direction != %d)" % wanted: 0, "(mi->direction == %d)" % wanted: 1},
                                 [(step, "mi->current"), (pick,)]),):
            _table(ctx, "T12-merge-composition", f, [(name, env, want)], _dir_token)
        env = {"(mi->direction != %d)" % wanted: 1, "(mi->direction == %d)" % wanted: 0, "(i < mi->n)": 0}
        got = sequences_under(f, _dir_token, _valuation(env))
        want = {(("direction=%d" % wanted,), (step, "mi->current"), (pick,))}
        ctx.check(got == want, "T12-merge-composition", fname + ":after-switch", f.name, f.loc,
                  "after the children were re-positioned the direction is recorded, the current child steps, the head is re-selected",
                  "%s after the switch loop performs %s, expected %s" % (fname, _fmt(got), _fmt(want)))


def _two_token(e):
    t = _wrap_token(e)
    if t is None:
        return None
    a = t[1:] if len(t) > 1 else ()
    who = "index" if a and "index_iter" in a[0] else ("data" if a and "data_iter" in a[0] else None)
    if who is not None:
        return (t[0], who) + tuple(a[1:])
    return t


MIRROR_MOVE = {"first": "last", "last": "first", "next": "prev", "prev": "next", "seek": "seek",
               "skip_forward": "skip_backward", "skip_backward": "skip_forward"}


def _mirror(seqs):
    out = set()
    for s in seqs:
        out.add(tuple((MIRROR_MOVE.get(x[0], x[0]),) + tuple(x[1:]) if isinstance(x, tuple) else x for x in s))
    return out


def check_two_level(ctx):
    HAS = "(iter->data_iter.iter != 0)"
    NO = "(iter->data_iter.iter == 0)"
    tab = {
        "ldb_twoiter_seek": [("data block", {HAS: 1, NO: 0}, [("seek", "index", "target"), ("init_data_block",), ("seek", "data", "target"), ("skip_forward",)]),
                             ("no data block", {HAS: 0, NO: 1}, [("seek", "index", "target"), ("init_data_block",), ("skip_forward",)])],
        "ldb_twoiter_first": [("data block", {HAS: 1, NO: 0}, [("first", "index"), ("init_data_block",), ("first", "data"), ("skip_forward",)]),
                              ("no data block", {HAS: 0, NO: 1}, [("first", "index"), ("init_data_block",), ("skip_forward",)])],
        "ldb_twoiter_last": [("data block", {HAS: 1, NO: 0}, [("last", "index"), ("init_data_block",), ("last", "data"), ("skip_backward",)]),
                             ("no data block", {HAS: 0, NO: 1}, [("last", "index"), ("init_data_block",), ("skip_backward",)])],
        "ldb_twoiter_next": [("any", {}, [("next", "data"), ("skip_forward",)])],
        "ldb_twoiter_prev": [("any", {}, [("prev", "data"), ("skip_backward",)])],
    }
    for fname, rows in sorted(tab.items()):
        _table(ctx, "T12-twolevel-composition", ctx.fn(fname, TL), rows, _two_token)
    # the skip loops: one round under each valuation
    VD = "valid:(&iter->data_iter)"
    VI = "valid:(&iter->index_iter)"
    for fname, step, edge in (("ldb_twoiter_skip_forward", "next", "first"), ("ldb_twoiter_skip_backward", "prev", "last")):
        f = ctx.fn(fname, TL)
        rows = [
            ("positioned", {HAS: 1, NO: 0, "valid": 1, VD: 1, VI: 1}, []),
            ("block exhausted, index exhausted", {HAS: 1, NO: 0, "valid": 0, VD: 0, VI: 0}, [("set_data_iter", "0")]),
            ("no block, index exhausted", {HAS: 0, NO: 1, "valid": 0, VD: 0, VI: 0}, [("set_data_iter", "0")]),
        ]
        _table(ctx, "T12-twolevel-composition", f, rows, _two_token)
        for name, env in (("block exhausted, index valid", {NO: 0, "valid": 0, VD: 0, VI: 1}), ("no block, index valid", {NO: 1, VD: 0, VI: 1, "valid": 1})):
            # first round only: the block state after init_data_block is unknown again
            got = sequences_under(f, _two_token, _valuation(env), stop=lambda e: is_call(e, "ldb_twoiter_init_data_block"))
            ctx.check(got == {((step, "index"),)}, "T12-twolevel-composition", "%s:%s" % (fname, name), f.name, f.loc,
                      "an exhausted block is left by moving the index %s" % step,
                      "%s under %s performs %s before re-initialising the data block, expected %s(index)" % (fname, name, _fmt(got), step))
        after = sequences_under(f, _two_token, _valuation({HAS: 1, NO: 0}), start=lambda e: is_call(e, "ldb_twoiter_init_data_block"))
        firsts = {s[0] if s else None for s in after}
        ok = firsts == {(edge, "data")}
        g = xgraph(ctx.P, f)
        fc = [(b, i, e) for (b, i, e) in f.events("call") if is_call(e, "ldb_wrapiter_" + edge)]
        okg = len(fc) == 1 and holds(g.must_at(fc[0][0], fc[0][1]), ("!=", "iter->data_iter.iter", "0"))
        ctx.check(ok and okg, "T12-twolevel-composition", "%s:enter-block" % fname, f.name, f.loc,
                  "a newly entered block is positioned at its %s entry (if there is a block)" % edge,
                  "after entering a block %s performs %s" % (fname, _fmt(after)))
    # forward and backward halves are mirror images
    for a, b in (("ldb_twoiter_first", "ldb_twoiter_last"), ("ldb_twoiter_next", "ldb_twoiter_prev"),
                 ("ldb_twoiter_skip_forward", "ldb_twoiter_skip_backward")):
        fa, fb = ctx.fn(a, TL), ctx.fn(b, TL)
        sa, sb = sequences_under(fa, _two_token, _valuation({})), sequences_under(fb, _two_token, _valuation({}))
        ctx.check(_mirror(sa) == sb, "T6-direction-mirror", "%s~%s" % (a, b), fb.name, fb.loc,
                  "%s is the mirror image of %s (%d path classes)" % (b, a, len(sa)),
                  "%s performs %s, the mirror image of %s is %s" % (b, _fmt(sb), a, _fmt(_mirror(sa))))
    for a, b in (("ldb_mergeiter_first", "ldb_mergeiter_last"),):
        pass
    # init_data_block: same handle -> keep the block; else build it from the handle of the current index entry
    ib = ctx.fn("ldb_twoiter_init_data_block", TL)
    rows = [("index invalid", {"valid": 0}, [("set_data_iter", "0")])]
    _table(ctx, "T12-twolevel-composition", ib, rows, _two_token)
    bf = [e for b, i, e in ib.events("call") if e.get("fp") is not None and _callee(e) == "block_function"]
    d = {e["n"]: key(e.get("init")) for b, i, e in ib.events("decl")}
    ctx.check(len(bf) == 1 and argkey(bf[0], 2) == "&handle" and d.get("handle") == "ldb_wrapiter_value((&iter->index_iter))",
              "T12-twolevel-composition", "init_data_block:handle", ib.name, ib.loc,
              "the data block is opened from the handle stored at the current index entry", "block opened from %s" % d.get("handle"))
    g = xgraph(ctx.P, ib)
    cp = [(b, i, e) for (b, i, e) in ib.events("call") if is_call(e, "ldb_buffer_copy") and argkey(e, 0) == "&iter->data_block_handle"]
    ctx.check(len(cp) == 1 and argkey(cp[0][2], 1) == "&handle", "T12-twolevel-composition", "init_data_block:remember-handle", ib.name, ib.loc,
              "the handle of the opened block is remembered (the 'same block' test compares against it)", "remembered handle changed")


DI = "src/db_iter.c"


CHILD_KEY = ("ldb_iter_key(iter->iter)", "(*iter->iter->table->key)(iter->iter->ptr)")
CHILD_VALUE = ("ldb_iter_value(iter->iter)", "(*iter->iter->table->value)(iter->iter->ptr)")
USER_KEY_OF_KEY = ("ldb_extract_user_key((&key))", "ldb__slice((&key)->data, ((&key)->size - 8))")


def _db_token(e):
    k = e["e"]
    if k == "call" and e.get("fp") is not None:
        n = _callee(e)
        if n in MOVES and argkey(e, 0) == "iter->iter->ptr" and "iter->iter->table" in key(e["fp"]):
            return (n,) + tuple(_ak(a) for a in e["a"][1:])
        return None
    if k == "call" and e.get("f"):
        n = e["f"]
        if n.startswith("ldb_iter_") and n[9:] in MOVES and argkey(e, 0) == "iter->iter":
            return (n[9:],) + tuple(_ak(a) for a in e["a"][1:])
        if n == "find_next_user_entry":
            return ("find_next",) + tuple(_ak(a) for a in e["a"][1:])
        if n == "find_prev_user_entry":
            return ("find_prev",)
        if n == "ldb_buffer_copy" and argkey(e, 0) in ("skip", "&iter->saved_key", "&iter->saved_value"):
            return ("save", argkey(e, 0), argkey(e, 1))
        if n == "ldb_buffer_reset" and argkey(e, 0) == "&iter->saved_key":
            return ("reset-key",)
        if n == "clear_saved_value":
            return ("clear-value",)
        return None
    if k == "asg":
        lk = key(e["lhs"])
        if lk in ("iter->valid", "iter->direction", "skipping") and const_val(e["rhs"]) is not None:
            return ("%s=%d" % (lk.replace("iter->", ""), const_val(e["rhs"])),)
        if lk == "value_type":
            return ("value_type=%s" % key(e["rhs"]),)
    return None


def _db_valuation(f, env):
    """Like _valuation, plus: 'call:<name>' -> value of a direct call,
    'valid#k' -> value of the k-th (source order) ldb_iter_valid(iter->iter)."""
    base = _valuation(env)
    def is_valid_call(t):
        return (t.get("f") == "ldb_iter_valid") or (t.get("fp") is not None and _callee(t) == "valid" and
                                                    t.get("a") and _ak(t["a"][0]) == "iter->iter->ptr")
    in_assert = lambda t: any("assert" in str(m) for m in (t.get("mac") or ()))
    order = sorted({(tuple(int(x) for x in e["l"].split(":")[1:3]), e["id"]) for b, i, e in f.events("call")
                    if is_valid_call(e) and not in_assert(e)})
    ordinal = {cid: n + 1 for n, (_, cid) in enumerate(order)}

    def val(t):
        if t.get("k") == "call" and in_assert(t):
            return None if not is_valid_call(t) else 1     # an assertion's own validity test holds
        if t.get("k") == "call" and is_valid_call(t):
            kx = "valid#%d" % ordinal.get(t.get("id"), 0)
            if kx in env:
                return env[kx]
            return env.get("valid")
        if t.get("k") == "call" and t.get("f"):
            kx = "call:" + t["f"]
            if kx in env:
                return env[kx]
        return base(t)
    return val


def _db_table(ctx, f, rows, start=None, stop=None, cut=None):
    for name, env, want in rows:
        try:
            got = sequences_under(f, _db_token, _db_valuation(f, env), start=start, stop=stop)
        except Unsupported as u:
            raise AnalysisBroken("%s: %s" % (f.name, u))
        if cut is not None:
            got = {cut(s) for s in got}
        ctx.check(got == {tuple(want)}, "T12-dbiter-composition", "%s:%s" % (f.name, name), f.name, f.loc,
                  "%s: %s -> %s" % (f.name, name, _fmt([want])[0]),
                  "%s under %s performs %s, a sorted map over (user key, newest visible version) dictates %s" %
                  (f.name, name, _fmt(got), _fmt([want])[0]), subject="%s:%s" % (f.name, name))


def _cmp_args(ctx, f, want, what):
    calls = [e for b, i, e in f.events("call") if e.get("fp") is not None and _callee(e) == "compare"]
    got = sorted((argkey(e, 0), argkey(e, 1), argkey(e, 2)) for e in calls)
    ctx.check(got == sorted(want), "T12-dbiter-composition", f.name + ":comparator", f.name, f.loc,
              "%s by the user comparator" % what, "%s compares %s (expected %s)" % (f.name, got, sorted(want)))


def check_db_iter(ctx):
    """User-level iterator: per entry of the internal stream, what the forward
    and the backward scan do with it; and how next / prev / seek / first /
    last compose the child moves and the two scans, direction switches
    included."""
    P = ctx.P
    FWD_, REV_ = int(P.enums["LDB_FORWARD"]["v"]), int(P.enums["LDB_REVERSE"]["v"])
    DEL, VAL = int(P.enums["LDB_TYPE_DELETION"]["v"]), int(P.enums["LDB_TYPE_VALUE"]["v"])
    VIS = {"call:parse_key": 1, "(ikey.sequence <= iter->sequence)": 1}
    fn = ctx.fn("find_next_user_entry", DI)
    body = lambda e: e["e"] == "decl" and e["n"] == "ikey"
    ctx.require(any(body(e) for b, i, e in fn.events("decl")), "find_next_user_entry: per-entry body not found")

    def one_round(s):
        out = []
        for x in s:
            if x == "<loop>":
                break
            out.append(x)
            if isinstance(x, tuple) and x[0] in ("next", "prev"):
                break
        return tuple(out)
    rows = [
        ("entry not parsable", {"call:parse_key": 0}, [("next",)]),
        ("entry newer than the iterator", {"call:parse_key": 1, "(ikey.sequence <= iter->sequence)": 0}, [("next",)]),
        ("visible tombstone", dict(VIS, **{"ikey.type": DEL}), [("save", "skip", "&ikey.user_key"), ("skipping=1",), ("next",)]),
        ("visible value, nothing to skip", dict(VIS, **{"ikey.type": VAL, "skipping": 0}), [("valid=1",), ("reset-key",)]),
        ("visible value of a key at or before the skip key", dict(VIS, **{"ikey.type": VAL, "skipping": 1, "cmp": 0}), [("next",)]),
        ("visible value of a key before the skip key", dict(VIS, **{"ikey.type": VAL, "skipping": 1, "cmp": -1}), [("next",)]),
        ("visible value of a key after the skip key", dict(VIS, **{"ikey.type": VAL, "skipping": 1, "cmp": 1}), [("valid=1",), ("reset-key",)]),
    ]
    _db_table(ctx, fn, rows, start=body, cut=one_round)
    _cmp_args(ctx, fn, [("iter->ucmp", "&ikey.user_key", "skip")], "an entry is hidden iff its user key is at or before the skip key")
    end = sequences_under(fn, _db_token, _db_valuation(fn, {"valid": 0}), start=lambda e: is_call(e, "ldb_iter_next"))
    ctx.check(end == {(("reset-key",), ("valid=0",))}, "T12-dbiter-composition", "find_next_user_entry:exhausted", fn.name, fn.loc,
              "when the stream is exhausted the iterator becomes invalid", "at the end of the stream find_next_user_entry performs %s" % _fmt(end))

    fp = ctx.fn("find_prev_user_entry", DI)
    ctx.require(any(body(e) for b, i, e in fp.events("decl")), "find_prev_user_entry: per-entry body not found")
    HAD, NONE_ = {"(value_type != %d)" % DEL: 1, "(value_type == %d)" % DEL: 0}, {"(value_type != %d)" % DEL: 0}
    keep_val = [("value_type=ikey.type",), ("save", "&iter->saved_key", "&ukey"), ("save", "&iter->saved_value", "&value"), ("prev",)]
    keep_del = [("value_type=ikey.type",), ("reset-key",), ("clear-value",), ("prev",)]
    rows = [
        ("entry not parsable", {"call:parse_key": 0}, [("prev",)]),
        ("entry newer than the iterator", {"call:parse_key": 1, "(ikey.sequence <= iter->sequence)": 0}, [("prev",)]),
        ("have a value, entry of an earlier key", dict(VIS, **dict(HAD, cmp=-1)), [("valid=1",)]),
        ("have a value, newer value of the same key", dict(VIS, **{"(value_type != %d)" % DEL: 1, "cmp": 0, "(value_type == %d)" % DEL: 0, "ikey.type": VAL}), keep_val),
        ("have a value, newer tombstone of the same key", dict(VIS, **{"(value_type != %d)" % DEL: 1, "cmp": 0, "(value_type == %d)" % DEL: 1, "ikey.type": DEL}), keep_del),
        ("nothing yet, value", dict(VIS, **{"(value_type != %d)" % DEL: 0, "(value_type == %d)" % DEL: 0, "ikey.type": VAL}), keep_val),
        ("nothing yet, tombstone", dict(VIS, **{"(value_type != %d)" % DEL: 0, "(value_type == %d)" % DEL: 1, "ikey.type": DEL}), keep_del),
    ]
    _db_table(ctx, fp, rows, start=body, cut=one_round)
    _cmp_args(ctx, fp, [("iter->ucmp", "&ikey.user_key", "&iter->saved_key")], "the backward scan stops at the first entry of an earlier key")
    d = {n: _defs(fp, n) for n in ("ukey", "key", "value")}
    ctx.check(len(d["key"]) == 1 and d["key"][0] in CHILD_KEY and len(d["ukey"]) == 1 and d["ukey"][0] in USER_KEY_OF_KEY and
              len(d["value"]) == 1 and d["value"][0] in CHILD_VALUE,
              "T12-dbiter-composition", "find_prev_user_entry:saved-entry", fp.name, fp.loc,
              "the saved key / value are those of the current child entry", "saved entry comes from %s" % d)
    for name, env, want in (("stream exhausted, last seen a tombstone / nothing", {"valid": 0, "(value_type == %d)" % DEL: 1},
                             [("valid=0",), ("reset-key",), ("clear-value",), ("direction=%d" % FWD_,)]),
                            ("stream exhausted, holding a value", {"valid": 0, "(value_type == %d)" % DEL: 0}, [("valid=1",)])):
        got = sequences_under(fp, _db_token, _db_valuation(fp, env))
        ctx.check(got == {tuple(want)}, "T12-dbiter-composition", "find_prev_user_entry:" + name, fp.name, fp.loc,
                  "find_prev_user_entry: %s -> %s" % (name, _fmt([want])[0]),
                  "find_prev_user_entry under %s performs %s, expected %s" % (name, _fmt(got), _fmt([want])[0]))
    # the value saved for the current entry survives until the scan moves on
    from ..rules import never_after
    saves = [e for b, i, e in fp.events("call") if _db_token(e) == ("save", "&iter->saved_value", "&value")]
    ctx.require(len(saves) >= 1, "find_prev_user_entry: the copy into saved_value not found")
    never_after(ctx, "T12-dbiter-composition", "find_prev_user_entry:saved-value-kept", fp,
                lambda e: e["e"] == "call" and _db_token(e) is not None and _db_token(e)[:2] == ("save", "&iter->saved_value"),
                lambda e: (is_call(e, ("ldb_buffer_reinit", "ldb_buffer_reset", "ldb_buffer_clear")) and argkey(e, 0) == "&iter->saved_value")
                or is_call(e, "clear_saved_value"),
                "the value copied for the entry just accepted is not released before the scan steps to the next entry",
                until=lambda e: e["e"] == "call" and _db_token(e) == ("prev",))
    ini = [key(e.get("init")) for b, i, e in fp.events("decl") if e["n"] == "value_type"]
    ctx.check(ini == [str(DEL)], "T12-dbiter-composition", "find_prev_user_entry:initial", fp.name, fp.loc,
              "the backward scan starts with nothing held", "value_type starts as %s" % ini)

    # positioning and stepping
    SK = "&iter->saved_key"
    dn = ctx.fn("ldb_dbiter_next", DI)
    R = {"(iter->direction == %d)" % REV_: 1, "(iter->direction != %d)" % REV_: 0, "(iter->direction == %d)" % FWD_: 0, "(iter->direction != %d)" % FWD_: 1}
    F = {"(iter->direction == %d)" % REV_: 0, "(iter->direction != %d)" % REV_: 1, "(iter->direction == %d)" % FWD_: 1, "(iter->direction != %d)" % FWD_: 0}
    gone = [("valid=0",), ("reset-key",)]
    rows = [
        ("after a backward step, child before the first entry, nothing follows", dict(R, **{"valid#1": 0, "valid#2": 0}), [("direction=%d" % FWD_,), ("first",)] + gone),
        ("after a backward step, child before the first entry", dict(R, **{"valid#1": 0, "valid#2": 1}), [("direction=%d" % FWD_,), ("first",), ("find_next", "1", SK)]),
        ("after a backward step, nothing follows", dict(R, **{"valid#1": 1, "valid#2": 0}), [("direction=%d" % FWD_,), ("next",)] + gone),
        ("after a backward step", dict(R, **{"valid#1": 1, "valid#2": 1}), [("direction=%d" % FWD_,), ("next",), ("find_next", "1", SK)]),
        ("forward, nothing follows", dict(F, **{"valid#3": 0}), [("save", SK, "&ukey"), ("next",)] + gone),
        ("forward", dict(F, **{"valid#3": 1}), [("save", SK, "&ukey"), ("next",), ("find_next", "1", SK)]),
    ]
    _db_table(ctx, dn, rows)
    dp = ctx.fn("ldb_dbiter_prev", DI)
    rows = [
        ("already backward", R, [("find_prev",)]),
        ("after a forward step, stream exhausted backwards", dict(F, **{"valid": 0}),
         [("save", SK, "&ukey"), ("prev",), ("valid=0",), ("reset-key",), ("clear-value",)]),
        ("after a forward step, first earlier key reached", dict(F, **{"valid": 1, "cmp": -1}),
         [("save", SK, "&ukey"), ("prev",), ("direction=%d" % REV_,), ("find_prev",)]),
    ]
    _db_table(ctx, dp, rows)
    same = sequences_under(dp, _db_token, _db_valuation(dp, dict(F, **{"valid": 1, "cmp": 0})))
    ctx.check(all(s and s[-1] == "<loop>" and ("prev",) in s for s in same) and bool(same), "T12-dbiter-composition", "ldb_dbiter_prev:same-key-keeps-scanning",
              dp.name, dp.loc, "entries of the current key are skipped backwards until an earlier key appears",
              "ldb_dbiter_prev on an entry of the same key performs %s" % _fmt(same))
    _cmp_args(ctx, dp, [("iter->ucmp", "&ukey", "&iter->saved_key")], "the switch to backward scans to the first entry of an earlier key")
    for fname, move, rows in (
            ("ldb_dbiter_seek", "seek", [("target found", {"valid": 1}, [("direction=%d" % FWD_,), ("clear-value",), ("reset-key",), ("seek", SK), ("find_next", "0", SK)]),
                                         ("past the end", {"valid": 0}, [("direction=%d" % FWD_,), ("clear-value",), ("reset-key",), ("seek", SK), ("valid=0",)])]),
            ("ldb_dbiter_first", "first", [("non-empty", {"valid": 1}, [("direction=%d" % FWD_,), ("clear-value",), ("first",), ("find_next", "0", SK)]),
                                           ("empty", {"valid": 0}, [("direction=%d" % FWD_,), ("clear-value",), ("first",), ("valid=0",)])]),
            ("ldb_dbiter_last", "last", [("any", {}, [("direction=%d" % REV_,), ("clear-value",), ("last",), ("find_prev",)])])):
        _db_table(ctx, ctx.fn(fname, DI), rows)
    # what the iterator reports depends on the direction it was positioned in
    for fname, fwd, rev in (("ldb_dbiter_key", USER_KEY_OF_KEY, "iter->saved_key"), ("ldb_dbiter_value", CHILD_VALUE, "iter->saved_value")):
        f = ctx.fn(fname, DI)
        g = xgraph(P, f)
        rets = [(key(e.get("x")), g.must_at(b, i)) for b, i, e in f.events("ret") if e.get("x") is not None]
        ok = len(rets) == 2 and all((k2 in fwd and holds(a, ("==", "iter->direction", FWD_))) or (k2 == rev and holds(a, ("!=", "iter->direction", FWD_)))
                                    for k2, a in rets) and any(k2 in fwd for k2, a in rets) and any(k2 == rev for k2, a in rets)
        ctx.check(ok, "T12-dbiter-composition", fname + ":by-direction", f.name, f.loc,
                  "forward: the child's current entry; backward: the saved entry", "%s returns %s" % (fname, [k2 for k2, a in rets]))


def check_block_seek(ctx):
    """Block iterator seek: the restart-point binary search keeps
    `key(left) < target <= key(right + 1)`: the lower bound moves up only past
    a restart key that compares below the target, the upper bound moves down
    otherwise, the midpoint is the upper one (the loop ends), and the final
    scan stops at the first key that does not compare below the target."""
    BLK = "src/table/block.c"
    f = ctx.fn("ldb_blockiter_seek", BLK)
    g = xgraph(ctx.P, f)
    rows = [("left", "mid", [("<", "re:do_compare\\(iter, \\(&mid_key\\), target\\)#\\d+", "0")], "the lower bound moves to a restart key below the target"),
            ("right", "(mid - 1)", [(">=", "re:do_compare\\(iter, \\(&mid_key\\), target\\)#\\d+", "0")], "the upper bound moves below a restart key at or above the target"),
            ("left", "iter->restart_index", [("<", "current_key_compare", "0")], "the current position is a lower bound only if its key is below the target"),
            ("right", "iter->restart_index", [(">", "current_key_compare", "0")], "the current position is an upper bound only if its key is above the target")]
    for var, rhs, guard, what in rows:
        sts = [(b, i, e) for (b, i, e) in f.events("asg") if key(e["lhs"]) == var and key(e["rhs"]) == rhs]
        if not sts:
            ctx.bad("T2-block-seek", "%s=%s" % (var, rhs), f.name, f.loc, "no store `%s = %s`: %s" % (var, rhs, what))
            continue
        for b, i, e in sts:
            atoms = g.must_at(b, i)
            ctx.check(all(holds(atoms, a) for a in guard), "T2-block-seek", "%s=%s@%s" % (var, rhs, e["l"].split(":")[1]), f.name, site(f, e),
                      what, "`%s = %s` is reachable under %s" % (var, rhs, fmt_atoms(atoms)), subject="%s=%s" % (var, rhs))
    other = [(key(e["lhs"]), key(e["rhs"])) for b, i, e in f.events("asg") if key(e["lhs"]) in ("left", "right") and
             (key(e["lhs"]), key(e["rhs"])) not in {(r[0], r[1]) for r in rows} | {("left", "0"), ("right", "(iter->num_restarts - 1)")}]
    ctx.check(not other, "T2-block-seek", "bounds-stores", f.name, f.loc, "the search bounds are only moved by the four rules above",
              "other stores to the search bounds: %s" % other)
    ctx.check(_defs(f, "mid") == ["(((left + right) + 1) / 2)"], "T2-block-seek", "upper-midpoint", f.name, f.loc,
              "the midpoint rounds up (with `left = mid` the interval always shrinks)", "midpoint is %s" % _defs(f, "mid"))
    ctx.check(_defs(f, "current_key_compare")[-1:] == ["do_compare(iter, (&iter->key), target)"] or
              "do_compare(iter, (&iter->key), target)" in _defs(f, "current_key_compare"), "T2-block-seek", "current-compare", f.name, f.loc,
              "the current position is compared with the target", "current_key_compare is %s" % _defs(f, "current_key_compare"))
    # final scan: returns at the first key >= target (or at the end)
    from ..rules import must_cross_edge_before, rel_edge
    rets = [(b, i, e) for (b, i, e) in f.events("ret")]
    tail = sequences_under(f, lambda e: ("parse",) if is_call(e, "parse_next_key") else (("ret",) if e["e"] == "ret" else None),
                           _db_valuation(f, {"cmp": -1, "call:parse_next_key": 1}),
                           start=lambda e: is_call(e, "seek_to_restart_point"))
    ctx.check(bool(tail) and all(s and s[-1] == "<loop>" for s in tail), "T2-block-seek", "scan-continues-below-target", f.name, f.loc,
              "the final scan keeps going while the key is below the target", "final scan under key < target: %s" % _fmt(tail))
    for sign, name in ((0, "equal to"), (1, "above")):
        t2 = sequences_under(f, lambda e: ("parse",) if is_call(e, "parse_next_key") else (("ret",) if e["e"] == "ret" else None),
                             _db_valuation(f, {"cmp": sign, "call:parse_next_key": 1}), start=lambda e: is_call(e, "seek_to_restart_point"))
        ctx.check(t2 == {(("parse",), ("ret",))}, "T2-block-seek", "scan-stops-at-key-%s-target" % name.split()[0], f.name, f.loc,
                  "the final scan stops at the first key %s the target" % name, "final scan under key %s target: %s" % (name, _fmt(t2)))
    st = [(b, i, e) for (b, i, e) in f.events("call") if is_call(e, "do_compare") and argkey(e, 1) == "&iter->key"]
    ctx.check(len(st) == 2 and all(argkey(e, 2) == "target" for b, i, e in st), "T2-block-seek", "scan-compares-target", f.name, f.loc,
              "the scan compares the current key with the target", "scan comparisons: %s" % [(argkey(e, 1), argkey(e, 2)) for b, i, e in st])
    sk = [(b, i, e) for (b, i, e) in f.events("call") if is_call(e, "seek_to_restart_point")]
    ctx.check(len(sk) == 1 and argkey(sk[0][2], 1) == "left", "T2-block-seek", "scan-starts-at-left", f.name, f.loc,
              "the scan starts at the restart point found", "scan starts at %s" % [argkey(e, 1) for b, i, e in sk])
    ctx.check(_defs(f, "skip_seek") == ["((left == iter->restart_index) && (current_key_compare < 0))"], "T2-block-seek", "skip-seek", f.name, f.loc,
              "the current position is reused only if it lies in the found restart block below the target",
              "skip_seek is %s" % _defs(f, "skip_seek"))


def check(ctx):
    from . import tablefmt as _tf5
    _tf5.check_capi_comparator(ctx)   # index keys are shortened only by a comparator that knows its own order
    from . import c08 as _c08
    _c08.check_readers(ctx)        # the iterator's sequence and its pinned state are captured in one critical section
    from . import tablefmt as _tf2
    _tf2.check_twoiter_status(ctx)   # an error met while skipping blocks stays visible
    check_block_seek(ctx)
    check_db_iter(ctx)
    check_seek_helpers(ctx)
    check_merger(ctx)
    check_two_level(ctx)
    from . import c06, c13, c14
    c14.check_level_loops(ctx)     # an iterator has a child for every level
    from . import c10 as _c10
    _c10.check_static_locals(ctx)  # what an iterator returns is its own storage, not a buffer shared with other iterators
    from . import c04
    c04.check_write(ctx)           # an iterator's sequence never covers a batch that is still being inserted
    c06.check_iter_filter(ctx)     # entries newer than the iterator's sequence are hidden, tombstones hide older values
    c13.check_pinning(ctx)         # an iterator pins the memtables and the version (hence its files) it reads
