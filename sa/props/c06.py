"""C06 Snapshots are immutable views.

Decided: compactions compute their drop bound from the OLDEST live snapshot
(or the last sequence when none exists) and drop only under the two rules
shared with C01; iterators accept or hide an entry only if its sequence is
at or below the iterator's sequence and seek with that sequence; lookups and
iterators take a snapshot's recorded sequence; the snapshot list is ordered
oldest-first and only modified by ldb_snapshot / ldb_release.
Not decided: the observed contents.
"""
from ..paths import xgraph
from ..program import const_val, key, strip_casts
from ..rules import (holds_exact, argkey, check_guard, find_calls, fmt_atoms, holds, is_call, one_call, site, CALL)
from . import c01, c08

EXPLANATION = ("Guard-dominance analysis of the compaction drop rules and of the sequence filters of the user "
               "iterator, provenance of the sequence numbers used by snapshot reads, and who-may-call rules for the "
               "snapshot list.")
RULE = "obligation = one guard / provenance / who-may-call instance; non-trivial = matched a site and walked a path"
MIN_OBLIGATIONS = 30
IT = "src/db_iter.c"


def check_iter_filter(ctx):
    P = ctx.P
    for fn_name in ("find_next_user_entry", "find_prev_user_entry"):
        f = ctx.fn(fn_name, IT)
        g = xgraph(P, f)
        n = 0
        for b, i, e in f.events():
            eff = None
            if e["e"] == "asg":
                lk = key(e["lhs"])
                if lk == "iter->valid" and const_val(e["rhs"]) == 1 and fn_name == "find_next_user_entry":
                    eff = "yield"
                elif lk == "skipping" and const_val(e["rhs"]) == 1:
                    eff = "hide"
                elif lk == "value_type" and key(e["rhs"]) == "ikey.type":
                    eff = "track"
            elif e["e"] == "call" and e.get("f") == "ldb_buffer_copy" and argkey(e, 0) in ("skip", "&iter->saved_key", "&iter->saved_value"):
                eff = "save"
            if eff is None:
                continue
            n += 1
            atoms = g.must_at(b, i)
            # exact: a stricter filter (<) would hide the write the snapshot was taken at
            ok = holds_exact(atoms, ("<=", "ikey.sequence", "iter->sequence")) and holds(atoms, ("!=", CALL("parse_key"), "0"))
            ctx.check(ok, "T2-snapshot-filter", "%s:%s@%s" % (fn_name, eff, e["l"].split(":")[1]), f.name, site(f, e),
                      "an entry influences the view only if parsed and sequence <= iterator sequence",
                      "an entry newer than the iterator's sequence can influence the view; facts %s" % fmt_atoms(atoms))
        ctx.require(n >= 1, "%s: effect sites not found (%d)" % (fn_name, n))
    sk = ctx.fn("ldb_dbiter_seek", IT)
    pk = one_call(ctx, sk, "ldb_pkey_init")[0][2]
    ctx.check(argkey(pk, 2) == "iter->sequence" and const_val(pk["a"][3]) == 1, "T2-snapshot-filter", "seek-target", sk.name, site(sk, pk),
              "seek targets (key, iterator sequence, seek type)", "seek target built with %s" % argkey(pk, 2))
    ini = ctx.fn("ldb_dbiter_init", IT)
    st = [key(e["rhs"]) for b, i, e in ini.events("asg") if key(e["lhs"]) == "iter->sequence"]
    ctx.check(st == ["sequence"], "T2-snapshot-filter", "init", ini.name, ini.loc, "the iterator keeps the sequence it was given",
              "iter->sequence initialised from %s" % st)
    writers = sorted({f.name for f in P.all_functions for b, i, e in f.events("asg") if key(e["lhs"]).endswith("iter->sequence")})
    ctx.check(writers == ["ldb_dbiter_init"], "T2-snapshot-filter", "sequence-const", "<program>", IT,
              "the iterator sequence never changes after creation", "iter->sequence written by %s" % writers)
    cr = ctx.fn("ldb_dbiter_create", IT)
    c = one_call(ctx, cr, "ldb_dbiter_init")[0][2]
    ctx.check(argkey(c, 4) == "sequence", "T2-snapshot-filter", "create", cr.name, site(cr, c), "creation forwards the sequence",
              "ldb_dbiter_create passes %s" % argkey(c, 4))
    pkf = ctx.fn("parse_key", IT)
    imp = one_call(ctx, pkf, "ldb_pkey_import")[0][2]
    ctx.check(argkey(imp, 0) == "ikey", "T2-snapshot-filter", "parse", pkf.name, site(pkf, imp), "entries are decoded before filtering", "parse_key changed")


def check_snapshot_list(ctx):
    P = ctx.P
    callers = sorted({f.name for f, b, i, e in P.callers_of("ldb_snaplist_new")})
    ctx.check(callers == ["ldb_snapshot"], "T5-snapshot-list", "new", "<program>", "src/db_impl.c",
              "snapshots are created only by ldb_snapshot", "ldb_snaplist_new called by %s" % callers)
    callers = sorted({f.name for f, b, i, e in P.callers_of("ldb_snaplist_delete")})
    ctx.check(callers == ["ldb_release"], "T5-snapshot-list", "delete", "<program>", "src/db_impl.c",
              "snapshots are removed only by ldb_release", "ldb_snaplist_delete called by %s" % callers)
    sn = ctx.fn("ldb_snaplist_new", "src/snapshot.h")
    st = [key(e["rhs"]) for b, i, e in sn.events("asg") if key(e["lhs"]) == "snap->sequence"]
    ctx.check(st == ["sequence"], "T5-snapshot-list", "records-sequence", sn.name, sn.loc, "a snapshot records the given sequence",
              "snap->sequence set from %s" % st)
    seqw = sorted({f.name for f in P.all_functions for b, i, e in f.events("asg") if key(e["lhs"]).endswith("->sequence") and
                   strip_casts(e["lhs"]).get("s", "").startswith("ldb_snapshot")})
    ctx.check(seqw in (["ldb_snaplist_new"], ["ldb_snaplist_new", "ldb_snapshot_init"], ["ldb_snaplist_init", "ldb_snaplist_new"]) or
              set(seqw) <= {"ldb_snaplist_new", "ldb_snaplist_init", "ldb_snapshot_init"}, "T5-snapshot-list", "sequence-const", "<program>",
              "src/snapshot.h", "a snapshot's sequence is written once", "snapshot sequence written by %s" % seqw)
    dl = ctx.fn("ldb_snaplist_delete", "src/snapshot.h")
    lk = sorted(key(e["lhs"]) for b, i, e in dl.events("asg"))
    ctx.check(any("->prev->next" in k for k in lk) and any("->next->prev" in k for k in lk), "T5-snapshot-list", "unlink", dl.name, dl.loc,
              "release unlinks exactly the given snapshot", "snapshot unlinking changed: %s" % lk)


def check(ctx):
    from . import tablefmt as _tf
    _tf.check_filter_offsets(ctx)   # a filter consulted by a lookup holds every key of its block and is probed as built
    c01.check_compaction_drop(ctx)
    _tf.check_read_options_forwarded(ctx)   # the caller's read options (they carry the snapshot) reach the lookup unchanged
    check_iter_filter(ctx)
    check_snapshot_list(ctx)
    c08.check_readers(ctx)
    c01.check_version_get(ctx)     # a snapshot lookup selects files and entries with the snapshot's sequence
    c01.check_inputs(ctx)          # versions of one user key kept for a snapshot never straddle a compaction's input boundary
    from . import c04
    c04.check_write(ctx)       # a snapshot taken during a write must not cover a half-inserted batch
