"""C09 No deadlock, lost wake-up or stuck call under any schedule.

Decided: lock balance on every exit of every function in every reachable
lock context; no re-acquisition of a held class; acyclic lock-order graph;
every cond_wait sits in a loop that re-tests its predicate with the mutex
held, and a loop that waits for background *progress* also tests the error
latch; every enabling store to a waited-for field is followed by a wake-up
on the matching condition variable before the thread leaves its root;
wake-ups on the shared background condition are broadcasts; shutdown and
background-call exits.
Not decided: schedules involving the OS (starvation), time.
"""
from collections import defaultdict

from ..program import const_val, fields_in, key, strip_casts, calls_in
from ..paths import xgraph
from ..rules import (BAD, DEAD, always_before, argkey, check_automaton, find_calls, holds, is_call,
                     must_pass_before_success, rel_edge, site, truth_of)
from ..locks import LOCK, UNLOCK, WAIT, SIGNALS, classify
from . import lockmodel, c10

EXPLANATION = ("Interprocedural lock-state analysis for balance / self-deadlock / lock order, plus CFG cycle analysis "
               "of every wait loop and an interprocedural must-signal-after-store analysis for every waited-for field.")
RULE = ("obligation = one function context (balance), one acquisition (order), one wait site, one enabling store, "
        "one wake-up site; non-trivial = walked at least one path / cycle")
MIN_OBLIGATIONS = 300

DB = "src/db_impl.c"
BGCV = "db->background_work_finished_signal"

EXPECTED_ORDER = {("DB", "SHARD"), ("DB", "LRUID"), ("DB", "FILE"), ("DB", "LOG"), ("DB", "POOL"), ("DB", "RFILE")}

# condition variables on which several different kinds of waiter can sleep at once:
# a wake-up must reach all of them
BROADCAST_ONLY = {
    "background_work_finished_signal": "waiters: stalled writer, close, backup, manual compaction, flush wait - each with its own predicate",
}

# fields whose awaited change needs *successful* background work; after the error latch is set the
# background thread refuses work, so a loop waiting on them must also test bg_error
PROGRESS_FIELDS = {"imm", "done"}
PROGRESS_CALLS = {"ldb_versions_files"}


def check_balance(ctx, la):
    n = 0
    for (fk, H, mode), ex in sorted(la.exits.items(), key=lambda x: (x[0][0], sorted(x[0][1]))):
        if not ex:
            continue
        n += 1
        ok = ex == frozenset([H])
        ctx.check(ok, "T3c-lock-balance", "%s{%s}" % (fk[2], ",".join(sorted(H))), fk[2], "%s:%d" % (fk[0], fk[1]),
                  "returns with the lock state it was entered with",
                  "entered holding {%s} but can return holding %s" %
                  (",".join(sorted(H)), [sorted(x) for x in ex if x != H]), subject=fk[2])
    ctx.require(n >= 200, "lock balance: only %d function contexts analysed" % n)
    for fn, e, c, was, mode in la.releases:
        ctx.check(was, "T3c-unlock-held", "%s@%s" % (c, fn.name), fn.name, site(fn, e), "unlock of held %s" % c,
                  "ldb_mutex_unlock of %s which is not held here" % c, subject=fn.name)


def check_order(ctx, la):
    edges = defaultdict(list)
    for fn, e, c, held, mode in la.acquires:
        ctx.check(c not in held, "T3e-self-deadlock", "%s@%s" % (c, fn.name), fn.name, site(fn, e),
                  "%s acquired while not held" % c,
                  "%s is acquired while already held (non-recursive mutex); reached via %s" %
                  (c, " > ".join(la.chain(fn, held, mode)[-7:])), subject=fn.name)
        for h in held:
            if h != c:
                edges[(h, c)].append((fn, e))
    ctx.require(len(la.acquires) >= 40, "only %d lock acquisitions analysed" % len(la.acquires))
    # acyclicity
    adj = defaultdict(set)
    for (a, b) in edges:
        adj[a].add(b)
    cyc = _cycle(adj)
    ctx.check(cyc is None, "T3e-lock-order", "acyclic", "<program>", "lock-order graph",
              "lock-order graph %s is acyclic" % sorted(edges), "lock-order cycle: %s" % cyc)
    for (a, b), sites_ in sorted(edges.items()):
        fn, e = sites_[0]
        ctx.check((a, b) in EXPECTED_ORDER, "T3e-lock-order", "%s->%s" % (a, b), fn.name, site(fn, e),
                  "known order edge %s -> %s (%d sites)" % (a, b, len(sites_)),
                  "new lock-order edge %s -> %s (first at %s); confirm and extend EXPECTED_ORDER, or it is an inversion"
                  % (a, b, site(fn, e)), subject="%s->%s" % (a, b))


def _cycle(adj):
    color = {}

    def dfs(u, path):
        color[u] = 1
        for v in adj.get(u, ()):
            if color.get(v) == 1:
                return path + [u, v]
            if color.get(v) is None:
                r = dfs(v, path + [u])
                if r:
                    return r
        color[u] = 2
        return None
    for u in list(adj):
        if color.get(u) is None:
            r = dfs(u, [])
            if r:
                return r
    return None


def _reach(fn, start, blocked):
    seen = set()
    st = [s for s in fn.blocks[start].succ if s is not None]
    while st:
        b = st.pop()
        if b in seen or b in blocked:
            continue
        seen.add(b)
        for s in fn.blocks[b].succ:
            if s is not None:
                st.append(s)
    return seen


def _cond_of(blk):
    if blk.term is not None and "cond" in blk.term:
        return blk.term["cond"]
    return None


def check_waits(ctx, la):
    P = ctx.P
    n = 0
    for f in P.all_functions:
        for b, i, e in find_calls(f, WAIT):
            n += 1
            inst = "%s@%s" % (f.name, e["l"].split(":")[1])
            # (1) the wait is in a loop and every way round the loop re-tests a predicate on shared state
            cond_blocks = {bid for bid, blk in f.blocks.items()
                           if _cond_of(blk) is not None and (fields_in(_cond_of(blk)) or
                                                              any(n_.get("k") == "atomic" for n_ in _walk(_cond_of(blk))))}
            in_loop = b in _reach(f, b, set())
            blind = b in _reach(f, b, cond_blocks - {b}) if b not in cond_blocks else False
            ctx.check(in_loop and not blind, "T11-wait-in-loop", inst, f.name, site(f, e),
                      "wait is inside a loop that re-evaluates its predicate",
                      "cond_wait is not inside a predicate loop (spurious/lost wake-ups not handled)" if not in_loop else
                      "a path returns to the wait without re-testing any shared predicate", subject=f.name)
            # (2) waits for background progress must also watch the error latch
            cyc = {x for x in _reach(f, b, set()) if b in _reach(f, x, set()) or x == b}
            cfields, ccalls = set(), set()
            for x in cyc:
                c = _cond_of(f.blocks[x])
                if c is not None:
                    cfields |= fields_in(c)
                    ccalls |= {c_.get("f") for c_ in calls_in(c)}
            needs = bool((cfields & PROGRESS_FIELDS) or (ccalls & PROGRESS_CALLS))
            if classify(e["a"][1], f) == "DB" and key(e["a"][0]).endswith("background_work_finished_signal)"):
                if needs:
                    latch = {bid for bid in f.blocks if _cond_of(f.blocks[bid]) is not None and
                             "bg_error" in fields_in(_cond_of(f.blocks[bid]))}
                    escapes = b in _reach(f, b, latch)
                    ctx.check(not escapes, "T11-wait-watches-error", inst, f.name, site(f, e),
                              "every round of this progress wait re-tests bg_error",
                              "this loop waits for background progress (%s) but can go round without testing "
                              "bg_error: after a background error nothing will ever wake it" %
                              sorted((cfields & PROGRESS_FIELDS) | (ccalls & PROGRESS_CALLS)), subject=f.name)
                else:
                    ctx.ok("T11-wait-watches-error", inst, site(f, e),
                           "predicate {%s} does not depend on successful background work" % ",".join(sorted(cfields)), False)
    ctx.require(n >= 11, "only %d cond_wait sites found" % n)


def _walk(t):
    from ..program import walk
    return walk(t)


def check_wakeups(ctx):
    P = ctx.P
    n = 0
    for f in P.all_functions:
        for b, i, e in f.events("call"):
            if e.get("f") in SIGNALS:
                n += 1
                cv = key(e["a"][0])
                for fld, why in BROADCAST_ONLY.items():
                    if fld in cv:
                        ctx.check(e["f"] == "ldb_cond_broadcast", "T11-broadcast", "%s@%s" % (fld, f.name), f.name,
                                  site(f, e), "broadcast on the shared background condition",
                                  "ldb_cond_signal on %s: several kinds of waiter sleep there (%s), only one is woken"
                                  % (fld, why), subject=f.name)
    ctx.require(n >= 5, "only %d wake-up sites found" % n)


# ---------------------------------------------------------------------------
# signal after change
# ---------------------------------------------------------------------------

class SignalAfter(object):
    """Every path from an enabling store to the exit of the root it runs
    under passes a wake-up on `cvpat` (pending obligations propagate to the
    callers of the storing function)."""

    def __init__(self, ctx, cvpat, edge_ok=None, exempt_roots=()):
        self.ctx = ctx
        self.P = ctx.P
        self.cvpat = cvpat
        self.edge_ok = edge_ok
        self.exempt_roots = set(exempt_roots)
        self.memo = {}

    def is_signal(self, fn, e):
        if e.get("e") != "call":
            return False
        if e.get("f") in SIGNALS and self.cvpat in key(e["a"][0]):
            return True
        if e.get("f") and e["f"] not in SIGNALS:
            g = self.P.resolve(e["f"], fn)
            if g is not None and self.always_signals(g):
                return True
        return False

    def always_signals(self, g, depth=0):
        k = ("always", g.file, g.name)
        if k in self.memo:
            return self.memo[k]
        self.memo[k] = False
        if depth > 4:
            return False
        res = self._pending_from(g, None, depth + 1) is False
        self.memo[k] = res
        return res

    def _pending_from(self, fn, start, depth=0):
        """True if some feasible path from event `start` (None = entry) reaches
        the function exit without a wake-up."""
        xg = xgraph(self.P, fn)

        def step(q, b, i, e, st):
            if q == 0 and start is not None and start(e):
                return 1
            if q == 1 and self.is_signal(fn, e):
                return 2
            return q

        def edge(q, lit):
            if q == 1 and self.edge_ok is not None and lit is not None and lit[0] not in ("case", "default"):
                if self.edge_ok(lit[0], lit[1]):
                    return 2
            return q
        parent, finals = xg.run_automaton(0 if start is not None else 1, step, edge)
        for cur, q, bid in finals:
            if q == 1 and bid == fn.exit:
                return True
        return False

    def check(self, rule, instance, fn, store_pred, what):
        """store_pred(e) marks the enabling store in fn."""
        ctx = self.ctx
        if not any(store_pred(e) for b, i, e in fn.events()):
            ctx.require(False, "anchor vanished: enabling store for %s not found in %s" % (instance, fn.name))
        bad_chain = self._propagate(fn, store_pred, [fn.name], set())
        ctx.check(bad_chain is None, rule, instance, fn.name, fn.loc,
                  "%s: a wake-up on %s follows on every path up to the root" % (what, self.cvpat),
                  "%s: no wake-up on %s follows on some path (store in %s, thread leaves through %s)" %
                  (what, self.cvpat, fn.name, " < ".join(bad_chain or [])), subject=fn.name)

    def _propagate(self, fn, start, chain, seen):
        if not self._pending_from(fn, start):
            return None
        # pending at fn's exit: every caller must discharge it after the call
        callers = self.P.callers_of(fn.name)
        callers = [(g, b, i, e) for (g, b, i, e) in callers if self.P.resolve(fn.name, g) is fn]
        # callbacks (thread pool work item etc.)
        if not callers:
            via = self._indirect_callers(fn)
            if not via:
                if fn.name in self.exempt_roots:
                    return None
                return chain
            callers = via
        for g, b, i, e in callers:
            k = (g.file, g.name, e["id"])
            if k in seen:
                continue
            seen.add(k)
            if g.name in self.exempt_roots:
                continue
            r = self._propagate(g, lambda ev, cid=e["id"]: ev.get("e") == "call" and ev.get("id") == cid,
                                chain + [g.name], seen)
            if r is not None:
                return r
        return None

    def _indirect_callers(self, fn):
        out = []
        for g in self.P.all_functions:
            for b, i, e in g.events("call"):
                if "fp" in e and fn in self.P.callees(g, e):
                    out.append((g, b, i, e))
        return out


def _store(field, base_pat=None, value=None):
    def pred(e):
        if e.get("e") == "asg":
            l = strip_casts(e["lhs"])
            if isinstance(l, dict) and l.get("k") == "mem" and l["f"] == field:
                if base_pat is not None and base_pat not in key(l["b"]):
                    return False
                if value is not None:
                    return value(e["rhs"])
                return True
        from ..rules import incr_of
        r = incr_of(e)
        if r is not None:
            l = strip_casts(r[0])
            if isinstance(l, dict) and l.get("k") == "mem" and l["f"] == field and value is None:
                return base_pat is None or base_pat in key(l["b"])
        return False
    return pred


def check_signal_after_change(ctx):
    P = ctx.P
    zero = lambda r: const_val(r) == 0
    nonzero_or_var = lambda r: const_val(r) != 0
    bg = SignalAfter(ctx, "background_work_finished_signal", exempt_roots=("ldb_open",))
    bgc = ctx.fn("ldb_background_call", DB)
    bg.check("T11-signal-after-change", "background_compaction_scheduled=0", bgc,
             _store("background_compaction_scheduled", "db", zero), "clearing the scheduled flag")
    cm = ctx.fn("ldb_compact_memtable", DB)
    bg.check("T11-signal-after-change", "imm=NULL", cm, _store("imm", "db", zero), "retiring the immutable memtable")
    rb = ctx.fn("ldb_record_background_error", DB)
    bg.check("T11-signal-after-change", "bg_error=status", rb, _store("bg_error", "db"), "latching a background error")
    bc = ctx.fn("ldb_background_compaction", DB)
    bg.check("T11-signal-after-change", "manual_compaction=NULL", bc, _store("manual_compaction", "db", zero),
             "finishing a manual compaction")
    bg.check("T11-signal-after-change", "manual.done", bc, _store("done", "m"), "marking a manual compaction done")
    av = ctx.fn("ldb_versions_append_version", "src/version_set.c")
    bg.check("T11-signal-after-change", "version-install", av, _store("current", "vset"),
             "installing a new version (level-0 file count)")
    check_manual_cancel(ctx)
    # writer queue
    wq = SignalAfter(ctx, "ready->cv", edge_ok=lambda c, p: rel_edge(c, p, "==", "ready", "(&w)"))
    w = ctx.fn("ldb_write", DB)
    wq.check("T11-signal-after-change", "ready->done=1", w, _store("done", "ready"), "handing a result to a follower")
    # new queue head after the group was taken off
    must_pass_before_success(ctx, "T11-signal-after-change", "new-head", w,
                             lambda e: is_call(e, "ldb_queue_shift"),
                             lambda e: is_call(e, "ldb_cond_signal") and argkey(e, 0) == "&db->writers.head->cv",
                             "the next queue head is woken after the group left the queue",
                             success=lambda e, st: True,
                             edge_pass=lambda lit: rel_edge(lit[0], lit[1], "<=", "db->writers.length", 0))
    # thread pool
    pw = SignalAfter(ctx, "pool->worker")
    ps = ctx.fn("ldb_pool_schedule", "src/util/thread_pool.c")
    pw.check("T11-signal-after-change", "pool.queue.push", ps, lambda e: is_call(e, "ldb_queue_push"), "queueing work")
    pd = ctx.fn("ldb_pool_destroy", "src/util/thread_pool.c")
    pw.check("T11-signal-after-change", "pool.stop=1", pd, _store("stop", "pool"), "stopping the pool")
    pm = SignalAfter(ctx, "pool->master", edge_ok=lambda c, p: _running_nonzero(c, p) or
                     rel_edge(c, p, "!=", "pool->left", 0) or truth_of(c, p, "pool->stop") is True)
    wt = ctx.fn("worker_thread", "src/util/thread_pool.c")
    pm.check("T11-signal-after-change", "pool.running--", wt, _dec("running"), "a worker leaving")
    pm.check("T11-signal-after-change", "pool.left--", wt, _dec("left"), "a work item finishing")


def _dec(field):
    def pred(e):
        from ..rules import incr_of
        r = incr_of(e)
        if r is not None and r[1] == -1:
            l = strip_casts(r[0])
            return isinstance(l, dict) and l.get("k") == "mem" and l["f"] == field
        return False
    return pred


def _running_nonzero(c, p):
    c = strip_casts(c)
    if isinstance(c, dict) and c.get("k") == "bin" and c["op"] == "==" and const_val(c["r"]) == 0:
        l = strip_casts(c["l"])
        if isinstance(l, dict) and l.get("k") == "un" and l["op"] == "--" and key(l["x"]) == "pool->running":
            return p is False
    return False


def check_exits(ctx):
    P = ctx.P
    di = ctx.fn("ldb_destroy_internal", DB)
    always_before(ctx, "T2-shutdown", "flag<wait", di,
                  lambda e: e["e"] == "atomic" and "shutting_down" in key(e["p"]) and e["name"] == "__atomic_store_n",
                  lambda e: is_call(e, WAIT), "close raises shutting_down before it waits for the background thread")
    always_before(ctx, "T2-shutdown", "wait<pool-destroy", di, lambda e: is_call(e, WAIT) or is_call(e, UNLOCK),
                  lambda e: is_call(e, "ldb_pool_destroy"), "the pool is destroyed after the lock was released")
    dw = ctx.fn("ldb_do_compaction_work", DB)
    loop_ok = False
    for blk in dw.blocks.values():
        c = _cond_of(blk)
        if c is not None and blk.term["k"] in ("WhileStmt", "BinaryOperator") and "shutting_down" in key(c):
            loop_ok = True
    ctx.check(loop_ok, "T2-shutdown", "compaction-loop", dw.name, dw.loc,
              "the compaction loop polls shutting_down", "the compaction loop no longer polls shutting_down")
    bgc = ctx.fn("ldb_background_call", DB)
    must_pass_before_success(ctx, "T2-background-call", "clears-scheduled", bgc, None,
                             _store("background_compaction_scheduled", "db", lambda r: const_val(r) == 0),
                             "every run of the background call clears the scheduled flag",
                             success=lambda e, st: True)
    must_pass_before_success(ctx, "T2-background-call", "broadcasts", bgc, None,
                             lambda e: is_call(e, "ldb_cond_broadcast"),
                             "every run of the background call wakes the waiters", success=lambda e, st: True)
    ms = ctx.fn("ldb_maybe_schedule_compaction", DB)
    sch = find_calls(ms, "ldb_pool_schedule")
    ctx.require(len(sch) == 1, "ldb_maybe_schedule_compaction: schedule call not found")
    # facts at the entry of the scheduling block (the flag store just before the call kills its own atom)
    atoms = xgraph(P, ms).must_at(sch[0][0], 0)
    ctx.check(holds(atoms, ("==", "db->background_compaction_scheduled", "0")) and
              holds(atoms, ("==", "db->bg_error", "0")), "T2-background-call", "schedule-guard", ms.name,
              site(ms, sch[0][2]), "work is scheduled only if none is pending and no error is latched",
              "background work may be scheduled twice or after an error")
    always_before(ctx, "T2-background-call", "flag<schedule", ms,
                  _store("background_compaction_scheduled", "db", lambda r: const_val(r) == 1),
                  lambda e: is_call(e, "ldb_pool_schedule"), "the scheduled flag is set before the work is queued")
    # stall loop: error latch tested first
    mr = ctx.fn("ldb_make_room_for_write", DB)
    for b, i, e in find_calls(mr, WAIT) + find_calls(mr, "ldb_sleep_usec"):
        atoms = xgraph(P, mr).must_at(b, i)
        ctx.check(holds(atoms, ("==", "db->bg_error", "0")) or e.get("f") == "ldb_sleep_usec", "T2-stall-loop",
                  "error-first@%s" % e["l"].split(":")[1], mr.name, site(mr, e),
                  "a writer only stalls while no background error is latched",
                  "a writer can stall although a background error is latched")
    # pool: worker exit handshake
    wt = ctx.fn("worker_thread", "src/util/thread_pool.c")
    must_pass_before_success(ctx, "T2-pool-handshake", "worker-exit", wt, None, _dec("running"),
                             "a leaving worker decrements the running count", success=lambda e, st: True)


def check_manual_cancel(ctx):
    """The manual-compaction request is an object on the caller's stack that
    the background thread reaches through db->manual_compaction: the caller
    withdraws it (and returns, ending its lifetime) only once no background
    call is scheduled or running.  Shared with C10 (use after scope)."""
    P = ctx.P
    tr = ctx.fn("ldb_test_compact_range", DB)
    cancel = [(b, i, e) for (b, i, e) in tr.events("asg") if key(e["lhs"]) == "db->manual_compaction" and const_val(e["rhs"]) == 0]
    ctx.require(len(cancel) == 1, "ldb_test_compact_range: cancelling store not found")
    atoms = xgraph(P, tr).must_at(cancel[0][0], cancel[0][1])
    ctx.check(holds(atoms, ("==", "db->manual_compaction", "(&manual)")) and
              holds(atoms, ("==", "db->background_compaction_scheduled", "0")),
              "T11-signal-after-change", "manual-cancel(exception)", tr.name, site(tr, cancel[0][2]),
              "listed exception: reached only after the error/shutdown ended the wait loop and no background "
              "call is running; other waiters are released by their own predicate",
              "the cancelling store is reachable while a background call may still run")


def check_work_scheduled(ctx):
    """Waiters on background_work_finished_signal are only woken by a
    background call, so every event that can create compaction work (a newly
    installed version, a memtable handed to the background, a seek-charged
    file, a manual request) is followed - before the mutex is released - by
    ldb_maybe_schedule_compaction.  Otherwise a writer that finds too many
    level-0 files waits for a call nobody scheduled."""
    sched = lambda e: is_call(e, "ldb_maybe_schedule_compaction")
    op = ctx.fn("ldb_open", DB)
    must_pass_before_success(ctx, "T11-work-scheduled", "open", op, lambda e: is_call(e, "ldb_recover"), sched,
                             "a successful open schedules the compaction its recovered version may need")
    unl = lambda e: is_call(e, "ldb_mutex_unlock") and argkey(e, 0) == "&db->mutex"
    from ..rules import never_after
    never_after(ctx, "T11-work-scheduled", "open:before-unlock", op, unl, sched,
                "open schedules before it releases the mutex", until=lambda e: is_call(e, "ldb_mutex_lock"))
    bg = ctx.fn("ldb_background_call", DB)
    must_pass_before_success(ctx, "T11-work-scheduled", "background-call:re-arm", bg,
                             _store("background_compaction_scheduled", "db", lambda r: const_val(r) == 0), sched,
                             "after clearing the scheduled flag the background call re-arms itself if more work is due",
                             success=lambda e, st: True)
    mr = ctx.fn("ldb_make_room_for_write", DB)
    must_pass_before_success(ctx, "T11-work-scheduled", "memtable-switch", mr, _store("imm", "db", lambda r: key(r) == "db->mem"), sched,
                             "a memtable handed to the background is followed by a scheduling attempt",
                             success=lambda e, st: True)
    for fname, charge in (("ldb_get", "ldb_version_update_stats"), ("ldb_record_read_sample", "ldb_version_record_read_sample")):
        f = ctx.fn(fname, DB)
        us = [(b, i, e) for (b, i, e) in f.events("call") if is_call(e, charge)]
        ctx.require(len(us) == 1, "%s: %s call not found" % (fname, charge))
        must_pass_before_success(ctx, "T11-work-scheduled", fname + ":seek-charge", f, lambda e, c=charge: is_call(e, c), sched,
                                 "a file charged to its seek limit is followed by a scheduling attempt", success=lambda e, st: True,
                                 edge_pass=lambda lit, c=charge: _call_false(lit, c))
    tr = ctx.fn("ldb_test_compact_range", DB)
    must_pass_before_success(ctx, "T11-work-scheduled", "manual-request", tr, _store("manual_compaction", "db", lambda r: key(r) == "(&manual)"), sched,
                             "a registered manual compaction is followed by a scheduling attempt", success=lambda e, st: True,
                             reset=_store("manual_compaction", "db", lambda r: key(r) == "(&manual)"))


def _call_false(lit, name):
    c = strip_casts(lit[0])
    pol = lit[1]
    while isinstance(c, dict) and c.get("k") == "un" and c.get("op") == "!":
        pol = not pol
        c = strip_casts(c["x"])
    return isinstance(c, dict) and c.get("k") == "call" and c.get("f") == name and pol is False


def check(ctx):
    from . import c14 as _c14
    _c14.check_finalized_before_install(ctx)   # "needs compaction" is computed for every installed version
    check_work_scheduled(ctx)
    la = lockmodel.analysis(ctx)
    check_balance(ctx, la)
    check_order(ctx, la)
    check_waits(ctx, la)
    check_wakeups(ctx)
    check_signal_after_change(ctx)
    check_exits(ctx)
    c10.check_dbiter_confined(ctx)
