"""Shared write-ahead-log rules (used by C03, C04, C05, C11, C15)."""
from ..paths import xgraph
from ..program import const_val, key, show, strip_casts, vars_in, walk
from ..rules import (BAD, argkey, always_before, check_automaton, find_calls, fmt_atoms, holds, holds_any,
                     is_call, must_pass_before_success, one_call, site, truth_of, CALL)

LW = "src/log_writer.c"
LR = "src/log_reader.c"

# values of the special pseudo record types of the reader
FULL, FIRST, MIDDLE, LAST, EOF_, BADREC = 1, 2, 3, 4, 5, 6


def expand(fn, t, depth=0, seen=None, keep=()):
    """Substitute locals that have exactly one definition (decl init or single
    assignment) by their defining expression; gives a closed form for small
    straight-line computations such as `length = a | (b << 8)`."""
    defs = getattr(fn, "_single_defs", None)
    if defs is None:
        cnt = {}
        for b, i, e in fn.events():
            if e["e"] == "decl" and "init" in e:
                cnt.setdefault(e["n"], []).append(e["init"])
            elif e["e"] == "decl":
                cnt.setdefault(e["n"], [])
            elif e["e"] == "asg":
                l = strip_casts(e["lhs"])
                if isinstance(l, dict) and l.get("k") == "var":
                    cnt.setdefault(l["n"], []).append(e["rhs"] if e["op"] == "=" else None)
            elif e["e"] == "inc":
                l = strip_casts(e["x"])
                if isinstance(l, dict) and l.get("k") == "var":
                    cnt.setdefault(l["n"], []).append(None)
        params = {p["n"] for p in fn.params}
        defs = {n: v[0] for n, v in cnt.items() if len(v) == 1 and v[0] is not None and n not in params}
        fn._single_defs = defs
    seen = seen or set()
    if not isinstance(t, dict) or depth > 12:
        return t
    if t.get("k") == "var" and t["n"] in defs and t["n"] not in seen and t["n"] not in keep:
        return expand(fn, defs[t["n"]], depth + 1, seen | {t["n"]}, keep)
    out = dict(t)
    out.pop("cv", None)
    for kk in ("b", "x", "l", "r", "c", "i"):
        if isinstance(t.get(kk), dict):
            out[kk] = expand(fn, t[kk], depth + 1, seen, keep)
    if isinstance(t.get("a"), list):
        out["a"] = [expand(fn, x, depth + 1, seen, keep) for x in t["a"]]
    elif isinstance(t.get("a"), dict):
        out["a"] = expand(fn, t["a"], depth + 1, seen, keep)
    return out


def byte_reads(t, base):
    """[(const index, shift)] for every base[K] inside tree t, with the left
    shift applied to it (0 if none)."""
    out = []

    def go(n, sh):
        n = strip_casts(n)
        if not isinstance(n, dict):
            return
        if n.get("k") == "idx" and key(n["b"]) == base and const_val(n["i"]) is not None:
            out.append((const_val(n["i"]), sh))
            return
        if n.get("k") == "bin" and n["op"] == "<<" and const_val(n["r"]) is not None:
            go(n["l"], sh + const_val(n["r"]))
            return
        if n.get("k") == "bin":
            go(n["l"], sh)
            go(n["r"], sh)
            return
        for kk in ("x", "b", "c"):
            if isinstance(n.get(kk), dict):
                go(n[kk], sh)
        if isinstance(n.get("a"), list):
            for x in n["a"]:
                go(x, sh)
    go(t, 0)
    return sorted(out)


# ---------------------------------------------------------------------------

def check_emit(ctx):
    """emit_physical_record: header, payload, flush in order; one write(2) per
    physical record reaches the OS before success."""
    f = ctx.fn("emit_physical_record", LW)
    apps = find_calls(f, "ldb_wfile_append")
    ctx.check(len(apps) == 2 and all(argkey(e, 0) == "lw->file" for b, i, e in apps),
              "T1-emit-appends", "header+payload", f.name, f.loc,
              "header and payload are appended to lw->file",
              "expected two ldb_wfile_append(lw->file, ..) calls, found %s" % [argkey(e, 0) for b, i, e in apps])
    must_pass_before_success(ctx, "T1-emit-flush", "flush-before-success", f, None,
                             lambda e: is_call(e, "ldb_wfile_flush") and argkey(e, 0) == "lw->file",
                             "a physical record is handed to write(2) before success",
                             edge_pass=lambda lit: truth_of(lit[0], lit[1], "lw->dst") is True)
    always_before(ctx, "T1-emit-order", "append<flush", f, lambda e: is_call(e, "ldb_wfile_append"),
                  lambda e: is_call(e, "ldb_wfile_flush"), "the flush comes after the appends")
    for b, i, e in apps + find_calls(f, "ldb_wfile_flush"):
        ctx.check(e.get("use") in ("assign", "init", "ret", "cond"), "T4-emit-status", e.get("f"), f.name,
                  site(f, e), "status kept", "status of %s dropped in emit_physical_record" % e.get("f"))
    a = ctx.fn("ldb_writer_add_record", LW)
    must_pass_before_success(ctx, "T1-add-record-emits", "emit", a, None,
                             lambda e: is_call(e, "emit_physical_record"),
                             "ldb_writer_add_record succeeds only through emit_physical_record")
    for b, i, e in one_call(ctx, a, "emit_physical_record"):
        ctx.check(e.get("use") in ("assign", "init", "ret", "cond"), "T4-emit-status", "add_record", a.name,
                  site(a, e), "status of emit_physical_record kept", "status of emit_physical_record dropped")
    # the loop goes round again iff rc == LDB_OK and bytes are left (whatever the loop is spelled as)
    from ..rules import sequences_under
    tok = lambda e: "emit" if is_call(e, "emit_physical_record") else ("ret" if e["e"] == "ret" else None)
    end_of_round = lambda e: e["e"] == "asg" and key(e["lhs"]) == "begin" and const_val(e["rhs"]) == 0
    ctx.require(any(end_of_round(e) for b, i, e in a.events("asg")), "ldb_writer_add_record: end of the fragment round not found")
    outcomes = {}
    for name, env in (("ok,left", {"rc": 0, "left": 5}), ("ok,done", {"rc": 0, "left": 0}), ("error,left", {"rc": 1, "left": 5})):
        seqs = sequences_under(a, tok, lambda t, env=env: env.get(key(t)), start=end_of_round)
        outcomes[name] = {("again" if ("emit" in x or "<loop>" in x) else "stop") for x in seqs}
    ctx.check(outcomes == {"ok,left": {"again"}, "ok,done": {"stop"}, "error,left": {"stop"}},
              "T1-add-record-loop", "rc&&left", a.name, a.loc,
              "fragments are emitted while rc == LDB_OK and bytes are left",
              "fragment loop continuation changed: %s" % {k2: sorted(v) for k2, v in sorted(outcomes.items())})


def check_header_agreement(ctx):
    w = ctx.fn("emit_physical_record", LW)
    r = ctx.fn("read_physical_record", LR)
    # writer
    wl = {}
    for b, i, e in w.events("asg"):
        l = strip_casts(e["lhs"])
        if isinstance(l, dict) and l.get("k") == "idx" and key(l["b"]) == "buf" and const_val(l["i"]) is not None:
            rhs = e["rhs"]
            shifted = [n for n in walk(rhs) if n.get("k") == "bin" and n["op"] == ">>"]
            sh = const_val(shifted[0]["r"]) if shifted else 0
            wl[const_val(l["i"])] = (sorted(vars_in(rhs)), sh)
    ok = wl.get(4) == (["length"], 0) and wl.get(5) == (["length"], 8) and wl.get(6) == (["type"], 0)
    ctx.check(ok, "T6-log-header", "writer", w.name, w.loc,
              "header bytes: [4]=len&0xff [5]=len>>8 [6]=type",
              "writer header layout is %s (standard: length low at 4, high at 5, type at 6)" % wl)
    fw = find_calls(w, "ldb_fixed32_write")
    ctx.check(len(fw) == 1 and argkey(fw[0][2], 0) == "buf" and argkey(fw[0][2], 1) == "crc",
              "T6-log-header", "writer:crc@0", w.name, w.loc, "masked CRC stored at offset 0",
              "CRC is not stored at header offset 0")
    crc_defs = [e["rhs"] for b, i, e in w.events("asg") if key(e["lhs"]) == "crc"]
    ks = [key(x) for x in crc_defs]
    ok = len(ks) == 2 and ks[0].startswith("ldb_crc32c_extend(lw->type_crc[type], ptr, length)") and \
        ks[1] == "ldb_crc32c_mask(crc)"
    ctx.check(ok, "T6-log-crc", "writer", w.name, w.loc, "crc = mask(extend(type_crc[type], payload))",
              "writer CRC computation changed: %s" % ks)
    ini = ctx.fn("init_type_crc", LW)
    ok = any(key(e["lhs"]) == "type_crc[i]" and "(&i), 1" in key(e["rhs"]) for b, i, e in ini.events("asg"))
    ctx.check(ok, "T6-log-crc", "writer:type_crc", ini.name, ini.loc, "type_crc[i] = crc32c of the single type byte",
              "type_crc table no longer the CRC of the type byte")
    # reader
    def closed(name):
        return expand(r, {"k": "var", "n": name}, keep=("header",))
    ln = byte_reads(closed("length"), "header")
    ty = byte_reads(closed("type"), "header")
    ctx.check(ln == [(4, 0), (5, 8)] and ty == [(6, 0)], "T6-log-header", "reader", r.name, r.loc,
              "length = header[4] | header[5] << 8, type = header[6]",
              "reader decodes length from %s and type from %s" % (ln, ty))
    exp = key(closed("expect"))
    act = key(closed("actual"))
    ctx.check(exp == "ldb_crc32c_unmask(ldb_fixed32_decode(header))", "T6-log-crc", "reader:expect", r.name, r.loc,
              "expected CRC = unmask(fixed32 at offset 0)", "expected CRC computed as %s" % exp)
    ok = act.startswith("ldb_crc32c_extend(0, (header + 6), (1 + ") or act.startswith("ldb_crc32c_value((header + 6), (1 + ")
    ctx.check(ok and "header[4]" in act, "T6-log-crc", "reader:actual", r.name, r.loc,
              "actual CRC covers the type byte and the payload",
              "actual CRC computed as %s (standard: type byte + payload)" % act)
    # mask / unmask are inverse rotations
    for name, want, sign in (("ldb_crc32c_mask", {(">>", 15), ("<<", 17)}, "+"),
                             ("ldb_crc32c_unmask", {(">>", 17), ("<<", 15)}, "-")):
        f = ctx.fn(name, "src/util/crc32c.h")
        got = {(e["op"], const_val(e["rhs"])) for b, i, e in f.events("arith")}
        delta = False
        for b, i, e in f.events():
            for tr in (e.get("x"), e.get("init"), e.get("rhs")):
                for n in walk(tr):
                    if n.get("k") == "bin" and n["op"] == sign and (const_val(n["r"]) == 0xa282ead8):
                        delta = True
        ctx.check(got == want and delta, "T6-crc-mask", name, f.name, f.loc,
                  "%s rotates by %s and %ss the mask delta" % (name, sorted(want), sign),
                  "%s uses shifts %s / delta %s" % (name, sorted(got), delta))


def check_block_tail(ctx):
    a = ctx.fn("ldb_writer_add_record", LW)
    g = xgraph(ctx.P, a)
    sts = [(b, i, e) for (b, i, e) in a.events("asg") if key(e["lhs"]) == "lw->block_offset" and const_val(e["rhs"]) == 0]
    ctx.require(len(sts) == 1, "ldb_writer_add_record: block switch store not found")
    b, i, e = sts[0]
    atoms = g.must_at(b, i)
    ctx.check(holds(atoms, ("<", "leftover", 7)) and not holds(atoms, ("<", "leftover", 6)),
              "T2-log-block-switch", "writer", a.name, site(a, e),
              "a new block starts iff fewer than 7 bytes are left",
              "block switch guard changed; facts: %s" % fmt_atoms(atoms))
    lo = [e for b, i, e in a.events("decl") if e["n"] == "leftover"]
    ctx.check(bool(lo) and key(lo[0].get("init")) == "(32768 - lw->block_offset)", "T2-log-block-switch",
              "writer:leftover", a.name, a.loc, "leftover = LDB_BLOCK_SIZE - block_offset",
              "leftover computed as %s" % (key(lo[0].get("init")) if lo else None))
    av = [e for b, i, e in a.events("asg") if key(e["lhs"]) == "avail"]
    ctx.check(len(av) == 1 and key(av[0]["rhs"]) == "((32768 - lw->block_offset) - 7)", "T2-log-fragment-size",
              "avail", a.name, a.loc, "fragment space = block - offset - header",
              "avail computed as %s" % [key(x["rhs"]) for x in av])
    wi = ctx.fn("ldb_writer_init", LW)
    bo = [e for b, i, e in wi.events("asg") if key(e["lhs"]) == "lw->block_offset"]
    def _narrowed(t):
        """a cast to a type narrower than 64 bits somewhere on the way from `length` to the modulo"""
        st = [t]
        while st:
            n = st.pop()
            if isinstance(n, dict):
                if n.get("k") == "cast" and "length" in key(n.get("x")) and n.get("t") in ("int", "unsigned int", "uint32_t", "int32_t", "short",
                                                                                         "unsigned short", "uint16_t", "long int32", "unsigned"):
                    x = n.get("x")
                    if not (isinstance(x, dict) and x.get("k") == "bin" and x.get("op") == "%"):
                        return True
                st.extend(v for v in n.values() if isinstance(v, (dict, list)))
            elif isinstance(n, list):
                st.extend(n)
        return False
    ctx.check(len(bo) == 1 and not _narrowed(bo[0]["rhs"]), "T2-log-reuse-offset", "writer_init:64-bit", wi.name, wi.loc,
              "the file length is reduced modulo the block size in 64 bits (a cast to int first wraps for files over 2 GiB)",
              "the initial length is narrowed before the modulo: %s" % (show(bo[0]["rhs"]) if bo else None))
    ctx.check(len(bo) == 1 and key(bo[0]["rhs"]) == "(length % 32768)", "T2-log-reuse-offset", "writer_init",
              wi.name, wi.loc, "block_offset = length % LDB_BLOCK_SIZE",
              "block_offset initialised as %s" % [key(x["rhs"]) for x in bo])
    # record type selection
    ty = {}
    for b, i, e in a.events("asg"):
        if key(e["lhs"]) == "type":
            atoms = g.must_at(b, i)
            ty[const_val(e["rhs"])] = (holds(atoms, ("!=", "begin", "0")), holds(atoms, ("==", "begin", "0")),
                                       holds(atoms, ("!=", "end", "0")), holds(atoms, ("==", "end", "0")))
    want = {FULL: (True, False, True, False), FIRST: (True, False, False, True),
            LAST: (False, True, True, False), MIDDLE: (False, True, False, True)}
    ctx.check(ty == want, "T2-log-fragment-type", "begin/end", a.name, a.loc,
              "FULL/FIRST/LAST/MIDDLE chosen from (begin, end)",
              "fragment type selection changed: %s" % ty)
    r = ctx.fn("read_physical_record", LR)
    gr = xgraph(ctx.P, r)
    rd = one_call(ctx, r, "ldb_rfile_read")[0]
    atoms = gr.must_at(rd[0], rd[1])
    # the size test is killed by the ldb_slice_reset(&lr->buffer) that precedes the refill: take it there
    pre = None
    for b, i, e in find_calls(r, "ldb_slice_reset"):
        a2 = gr.must_at(b, i)
        if argkey(e, 0) == "&lr->buffer" and holds(a2, ("==", "lr->eof", "0")) and holds(a2, ("<", "lr->buffer.size", 7)):
            pre = a2
    ctx.check(pre is not None and not holds(pre, ("<", "lr->buffer.size", 6))
              and holds(atoms, ("==", "lr->eof", "0")),
              "T2-log-block-switch", "reader", r.name, site(r, rd[2]),
              "a remainder shorter than a header is skipped as trailer and the next block is read",
              "reader refill guard changed; facts: %s" % fmt_atoms(atoms))
    ctx.check(const_val(rd[2]["a"][3]) == 32768, "T2-log-block-switch", "reader:blocksize", r.name, site(r, rd[2]),
              "reader refills one 32 KiB block", "reader refills %s bytes" % key(rd[2]["a"][3]))


def check_torn_tail(ctx):
    """No corruption report for a tail that merely ends early (C05.1/C15)."""
    r = ctx.fn("read_physical_record", LR)
    g = xgraph(ctx.P, r)
    reps = find_calls(r, ("report_corruption", "report_drop"))
    ctx.require(len(reps) >= 3, "read_physical_record: report calls not found")
    for b, i, e in reps:
        atoms = g.must_at(b, i)
        ok = holds_any(atoms, [[("==", "lr->eof", "0")], [("!=", "rc", "0")], [("!=", "actual", "expect")]])
        ctx.check(ok, "T2-torn-tail-silent", "report@%s" % e["l"].split(":")[1], r.name, site(r, e),
                  "drop report only for a non-final block, a read error or a CRC mismatch",
                  "a drop is reported although the data may just end early (eof); facts: %s" % fmt_atoms(atoms))
    # both truncated-tail shapes return EOF, never a record
    rets = [(b, i, e) for (b, i, e) in r.events("ret")]
    eofs = [x for x in rets if const_val(x[2].get("x")) == EOF_]
    ctx.check(len(eofs) >= 3, "T2-torn-tail-eof", "returns", r.name, r.loc,
              "truncated header / truncated payload / read error return LDB_EOF",
              "expected three LDB_EOF returns, found %d" % len(eofs))
    # the payload-length test precedes every use of the payload
    for b, i, e in find_calls(r, ("ldb_crc32c_extend", "ldb_crc32c_value")) + find_calls(r, "ldb_slice_eat"):
        atoms = g.must_at(b, i)
        ok = holds(atoms, ("<=", "(7 + length)", "lr->buffer.size")) and holds(atoms, (">=", "lr->buffer.size", 7))
        ctx.check(ok, "T2-log-length-bound", callee(e), r.name, site(r, e),
                  "payload used only when header+length fits the buffer",
                  "payload is used without the length bound; facts: %s" % fmt_atoms(atoms))
    sr = [x for x in rets if key(x[2].get("x")) == "type"]
    ctx.require(len(sr) == 1, "read_physical_record: `return type` not found")
    # the record is returned only after its bytes were consumed from the buffer (ldb_slice_eat above is
    # bounded) and after the CRC test when checksumming
    always_before(ctx, "T1-log-consume-before-return", "eat<return", r,
                  lambda e: is_call(e, "ldb_slice_eat"), lambda e: e["e"] == "ret" and key(e.get("x")) == "type",
                  "a physical record is returned only after it was consumed from the buffer")


def check_silent_skip(ctx):
    """read_physical_record never throws bytes away silently in mid-log: when
    it discards buffered data it reports to its caller (EOF / BAD_RECORD), so
    that a pending fragmented record is abandoned; only block padding (< header
    size) is skipped on the way to the next block."""
    r = ctx.fn("read_physical_record", LR)
    g = xgraph(ctx.P, r)
    n = 0
    for b, i, e in find_calls(r, "ldb_slice_reset"):
        if argkey(e, 0) != "&lr->buffer":
            continue
        n += 1
        atoms = g.must_at(b, i)
        if holds(atoms, ("<", "lr->buffer.size", 7)) and holds(atoms, ("==", "lr->eof", "0")):
            ctx.ok("T1-log-no-silent-skip", "trailer@%s" % e["l"].split(":")[1], site(r, e), "block padding skipped before a refill")
            continue
        cid = e["id"]

        def step(q, ev, st, bb, ii, cid=cid):
            from ..rules import BAD
            if q == BAD:
                return q
            if ev["e"] == "call" and ev.get("id") == cid:
                return 1
            if q == 1 and ev["e"] == "ret":
                return 0
            if q == 1 and (is_call(ev, "ldb_rfile_read") or (ev["e"] == "decl" and ev["n"] == "header") or
                           (ev["e"] == "asg" and key(ev["lhs"]) == "header")):
                from ..rules import BAD as B2
                return B2
            return q
        from ..rules import check_automaton
        check_automaton(ctx, "T1-log-no-silent-skip", "drop@%s" % e["l"].split(":")[1], r, 0, step, None,
                        "dropping buffered log bytes ends the call with EOF/BAD_RECORD (the caller abandons a pending fragment)")
    ctx.require(n >= 5, "read_physical_record: buffer resets not found (%d)" % n)
    # a record is dropped WITHOUT a report only if it is preallocation filler (type 0 and length 0) or
    # lies before the requested initial offset; every other drop is reported in the same block
    for b, i, e in r.events("ret"):
        if const_val(e.get("x")) != BADREC:
            continue
        atoms = g.must_at(b, 0)      # facts at the entry of the returning block (resets inside it kill size atoms)
        reported = any(is_call(x, ("report_corruption", "report_drop")) for x in r.blocks[b].ev[:i])
        filler = holds(atoms, ("==", "type", 0)) and holds(atoms, ("==", "length", "0"))
        before = holds(atoms, ("<", "re:.*lr->end_offset.*", "lr->initial_offset"))
        ctx.check(reported or filler or before, "T2-log-silent-drop-guards", "bad@%s" % e["l"].split(":")[1], r.name, site(r, e),
                  "unreported drop only for zero-length filler or data before the initial offset",
                  "a physical record can be dropped without a report; facts %s" % fmt_atoms(atoms))
    # after a CRC mismatch the length field itself is untrusted: the WHOLE buffered block is discarded before the
    # bad-record return (never just header+length bytes), or parsing would resume inside the damaged payload
    def whole(v):
        if v == "lr->buffer.size":
            return True
        defs = [key(x.get("init")) for bb, ii, x in r.events("decl") if x["n"] == v] + \
               [key(x["rhs"]) for bb, ii, x in r.events("asg") if key(x["lhs"]) == v]
        return bool(defs) and all(d == "lr->buffer.size" for d in defs)

    def clears(ev):
        if is_call(ev, "ldb_slice_reset") and argkey(ev, 0) == "&lr->buffer":
            return True
        return is_call(ev, "ldb_slice_eat") and argkey(ev, 0) == "&lr->buffer" and whole(argkey(ev, 1))
    ncrc = 0
    for b, i, e in r.events("ret"):
        if const_val(e.get("x")) != BADREC or not holds(g.must_at(b, 0), ("!=", "actual", "expect")):
            continue
        ncrc += 1
        line = e["l"]

        def step2(q, ev, st, bb, ii, line=line):
            from ..rules import BAD
            if q == BAD:
                return q
            if clears(ev):
                return 1
            if is_call(ev, "ldb_rfile_read"):
                return 0
            if ev["e"] == "ret" and ev.get("l") == line and q == 0:
                return BAD
            return q
        from ..rules import check_automaton
        check_automaton(ctx, "T2-crc-mismatch-drops-block", "clear<return@%s" % line.split(":")[1], r, 0, step2, None,
                        "a checksum mismatch discards the whole buffered block before LDB_BAD_RECORD (the length field is untrusted)")
    ctx.require(ncrc >= 1, "read_physical_record: checksum-mismatch return not found")
    # BAD_RECORD is what the zero-length / bad-length / bad-CRC / pre-offset branches return
    rets = [const_val(e.get("x")) for b, i, e in r.events("ret")]
    ctx.check(rets.count(BADREC) >= 4, "T1-log-no-silent-skip", "bad-record-returns", r.name, r.loc,
              "four conditions report LDB_BAD_RECORD", "LDB_BAD_RECORD returns: %d" % rets.count(BADREC))


def callee(e):
    return e.get("f") or (e.get("mac") or ["?"])[0]


def check_reassembly(ctx):
    """ldb_reader_read_record: a logical record is returned only complete."""
    f = ctx.fn("ldb_reader_read_record", LR)
    g = xgraph(ctx.P, f)
    T = "record_type"
    n1 = 0
    for b, i, e in f.events("ret"):
        v = const_val(e.get("x"))
        atoms = g.must_at(b, i)
        if v == 1:
            n1 += 1
            ok = holds(atoms, ("==", T, FULL)) or (holds(atoms, ("==", T, LAST)) and
                                                    holds(atoms, ("!=", "in_fragmented_record", "0")))
            ctx.check(ok, "T2-reassembly-return", "ret1@%s" % e["l"].split(":")[1], f.name, site(f, e),
                      "a record is delivered only for FULL, or LAST inside a fragmented record",
                      "a record is delivered outside FULL / LAST-in-fragment; facts: %s" % fmt_atoms(atoms))
    ctx.require(n1 >= 2, "ldb_reader_read_record: `return 1` sites not found")
    for b, i, e in f.events("asg"):
        lk = key(e["lhs"])
        atoms = g.must_at(b, i)
        if lk == "(*record)":
            rk = key(e["rhs"])
            ok = (holds(atoms, ("==", T, FULL)) and rk == "fragment") or \
                 (holds(atoms, ("==", T, LAST)) and rk == "(*scratch)")
            ctx.check(ok, "T2-reassembly-result", "record@%s" % e["l"].split(":")[1], f.name, site(f, e),
                      "*record is the single fragment (FULL) or the assembled scratch (LAST)",
                      "*record assigned %s under %s" % (rk, fmt_atoms(atoms)))
        if lk == "in_fragmented_record" and const_val(e["rhs"]) == 1:
            ctx.check(holds(atoms, ("==", T, FIRST)), "T2-reassembly-state", "enter", f.name, site(f, e),
                      "fragment state entered only on FIRST", "fragment state entered outside FIRST")
    # appends to scratch only while inside a fragmented record, set (not append) on FIRST
    for b, i, e in find_calls(f, "ldb_buffer_append"):
        atoms = g.must_at(b, i)
        ok = holds(atoms, ("!=", "in_fragmented_record", "0")) and \
            (holds(atoms, ("==", T, MIDDLE)) or holds(atoms, ("==", T, LAST)))
        ctx.check(ok, "T2-reassembly-append", "append@%s" % e["l"].split(":")[1], f.name, site(f, e),
                  "fragments are appended only inside a started record",
                  "fragment appended without a started record; facts: %s" % fmt_atoms(atoms))
    sets = [x for x in find_calls(f, "ldb_buffer_set") if argkey(x[2], 0) == "scratch"]
    ctx.check(len(sets) == 1 and holds(g.must_at(sets[0][0], sets[0][1]), ("==", T, FIRST)) if sets else False,
              "T2-reassembly-append", "first-sets", f.name, f.loc,
              "FIRST overwrites the scratch buffer", "FIRST no longer restarts the scratch buffer")
    # a bad physical record inside a fragmented record discards the partial record
    bad_resets = 0
    for b, i, e in f.events("asg"):
        if key(e["lhs"]) == "in_fragmented_record" and const_val(e["rhs"]) == 0:
            atoms = g.must_at(b, i)
            if holds(atoms, ("==", T, BADREC)):
                bad_resets += 1
    ctx.check(bad_resets >= 1, "T2-reassembly-state", "bad-record-resets", f.name, f.loc,
              "a damaged fragment ends the current logical record",
              "BAD_RECORD no longer clears the fragmented-record state")
    # ... on every path, whatever else is tested there: a fragment state that survives a dropped block lets the
    # orphaned MIDDLE/LAST fragments of the damaged record be delivered as a record of their own
    from ..rules import sequences_under

    def val(t):
        kk = key(t)
        if kk == T:
            return BADREC
        if kk == "in_fragmented_record":
            return 1
        return None
    tok = lambda e: "reset" if (e["e"] == "asg" and key(e["lhs"]) == "in_fragmented_record" and const_val(e["rhs"]) == 0) else \
        ("ret" if e["e"] == "ret" else None)
    seqs = sequences_under(f, tok, val, start=lambda e: e["e"] in ("asg", "decl") and (key(e.get("lhs")) == T or e.get("n") == T))
    bad = [x for x in seqs if "reset" not in x]
    ctx.check(bool(seqs) and not bad, "T2-reassembly-state", "bad-record-resets-always", f.name, f.loc,
              "inside a fragmented record a damaged fragment always ends it",
              "a BAD_RECORD inside a fragmented record can leave the fragment state set (%d of %d path classes)" % (len(bad), len(seqs)))
    # EOF: nothing delivered
    for b, i, e in f.events("ret"):
        atoms = g.must_at(b, i)
        if holds(atoms, ("==", T, EOF_)):
            ctx.check(const_val(e.get("x")) == 0, "T2-reassembly-return", "eof", f.name, site(f, e),
                      "EOF delivers no record", "a record is delivered at EOF")
    # the switch covers every record type plus a reporting default
    sw = [b for b in f.blocks.values() if b.term is not None and b.term["k"] == "SwitchStmt"]
    ctx.require(len(sw) == 1, "ldb_reader_read_record: switch not found")
    cases = set()
    dflt = False
    for s in sw[0].succ:
        if s is None:
            continue
        lab = f.blocks[s].label or {}
        if "case" in lab:
            cases.add(const_val(lab["case"]))
        if lab.get("default"):
            dflt = True
    ctx.check(cases == {FULL, FIRST, MIDDLE, LAST, EOF_, BADREC} and dflt, "T6-reassembly-cases", "switch",
              f.name, f.loc, "every record type and an unknown-type default are handled",
              "record-type switch handles %s default=%s" % (sorted(cases), dflt))
