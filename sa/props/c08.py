"""C08 Concurrent operations are linearizable.

Decided (critical-section identity): a reader captures memtable, immutable
memtable, current version and sequence number in ONE section of the DB mutex
and pins exactly what it captured; a writer allocates its sequence range in
the section in which it is queue head and publishes it, under the mutex,
after the insert and before any follower is released or the next head is
woken; memtable switch and version install are single sections; the
lock-free head-writer accesses are confined (shared with C10).
Not decided: linearizability of any concrete history.
"""
from ..paths import xgraph
from ..program import const_val, key, strip_casts
from ..rules import (BAD, always_before, argkey, check_automaton, find_calls, holds, is_call, never_after,
                     one_call, site)
from ..locks import LOCK, UNLOCK, WAIT, classify
from . import c03, c04, c10, lockmodel

EXPLANATION = ("Path automata over every feasible path of the read, write, snapshot and install functions decide that "
               "the state a linearization point depends on is captured / published inside a single critical section "
               "of the DB mutex, in the order the protocol needs.")
RULE = "obligation = one section / ordering rule instance in one function; non-trivial = walked at least one path"
MIN_OBLIGATIONS = 30
DB = "src/db_impl.c"


def one_section(ctx, rule, instance, fn, member, what, min_members=2):
    """No path has a release of the DB mutex (unlock, wait, or a call that may
    release it) between two member events."""
    rel = c03._may_release(ctx.P)
    members = [e for b, i, e in fn.events() if member(e)]
    if len(members) < min_members:
        ctx.bad(rule, instance, fn.name, fn.loc, "%s: only %d of the %d events that must share the section are present"
                % (what, len(members), min_members))
        return False

    la = lockmodel.analysis(ctx)
    ctxs = [H for (H, mode) in la.contexts.get((fn.file, fn.line, fn.name), ()) if mode == "mt"]
    locked0 = bool(ctxs) and all("DB" in H for H in ctxs)

    def step(q, e, st, b, i):
        # q = (phase, locked): phase 0 before the section, 1 inside, 2 after a release
        if q == BAD:
            return q
        ph, locked = q
        if e["e"] == "call" and e.get("f") in (LOCK, UNLOCK) and classify(e["a"][0], fn) != "DB":
            return q
        if e["e"] == "call" and e.get("f") == LOCK:
            return (ph, True)
        if member(e):
            if ph == 2 or not locked:
                return BAD
            return (1, locked)
        if e["e"] == "call":
            n = e.get("f")
            if n == UNLOCK:
                return (2 if ph == 1 else ph, False)
            if ph == 1 and (n == WAIT or n in rel):
                return (2, locked)
        return q
    return check_automaton(ctx, rule, instance, fn, (0, locked0), step, None, what)


def _reads(field, basepat):
    return lambda e: e["e"] == "mem" and e["f"] == field and basepat in key(e["b"]) and e["mode"] in ("r", "rw")


def check_readers(ctx):
    g = ctx.fn("ldb_get", DB)
    cap = lambda e: (_reads("mem", "db")(e) or _reads("imm", "db")(e) or _reads("current", "versions")(e) or
                     _reads("last_sequence", "versions")(e) or
                     is_call(e, ("ldb_memtable_ref", "ldb_version_ref")))
    one_section(ctx, "T3d-capture-section", "ldb_get", g, cap,
                "mem, imm, current version and sequence are captured and pinned in one section", 6)
    # what is pinned and searched is what was captured
    defs = {key(e["lhs"]): key(e["rhs"]) for b, i, e in g.events("asg") if key(e["lhs"]) in ("mem", "imm", "current")}
    ctx.check(defs == {"mem": "db->mem", "imm": "db->imm", "current": "db->versions->current"}, "T6-capture-identity",
              "ldb_get:locals", g.name, g.loc, "locals hold the captured objects", "capture locals are %s" % defs)
    refs = sorted(argkey(e, 0) for b, i, e in find_calls(g, ("ldb_memtable_ref", "ldb_version_ref")))
    unrefs = sorted(argkey(e, 0) for b, i, e in find_calls(g, ("ldb_memtable_unref", "ldb_version_unref")))
    ctx.check(refs == ["current", "imm", "mem"] and unrefs == refs, "T6-capture-identity", "ldb_get:pins", g.name, g.loc,
              "exactly the captured objects are pinned and released", "pinned %s, released %s" % (refs, unrefs))
    sn = [key(e["rhs"]) for b, i, e in g.events("asg") if key(e["lhs"]) == "snapshot"]
    ctx.check(sorted(sn) == ["db->versions->last_sequence", "options->snapshot->sequence"], "T6-capture-identity",
              "ldb_get:sequence", g.name, g.loc, "the read sequence is the snapshot's or the current last_sequence",
              "read sequence comes from %s" % sn)
    lk = one_call(ctx, g, "ldb_lkey_init")[0][2]
    ctx.check(argkey(lk, 1) == "key" and argkey(lk, 2) == "snapshot", "T6-capture-identity", "ldb_get:lookup-key",
              g.name, site(g, lk), "the lookup key carries the captured sequence", "lookup key built from %s" % argkey(lk, 2))
    probes = [(argkey(e, 0)) for b, i, e in find_calls(g, "ldb_memtable_get")]
    vget = [argkey(e, 0) for b, i, e in find_calls(g, "ldb_version_get")]
    ctx.check(probes == ["mem", "imm"] or sorted(probes) == ["imm", "mem"], "T6-capture-identity", "ldb_get:probes",
              g.name, g.loc, "the captured memtables are searched", "memtable probes on %s" % probes)
    ctx.check(vget == ["current"], "T6-capture-identity", "ldb_get:version", g.name, g.loc,
              "the captured version is searched", "version probe on %s" % vget)
    it = ctx.fn("ldb_internal_iterator", DB)
    cap2 = lambda e: (_reads("mem", "db")(e) or _reads("imm", "db")(e) or _reads("current", "versions")(e) or
                      _reads("last_sequence", "versions")(e) or
                      is_call(e, ("ldb_memtable_ref", "ldb_version_ref", "ldb_istate_create", "ldb_version_add_iterators")))
    one_section(ctx, "T3d-capture-section", "ldb_internal_iterator", it, cap2,
                "iterator children, pins and the sequence are captured in one section", 8)
    ls = [e for b, i, e in it.events("asg") if key(e["lhs"]) == "(*latest_snapshot)"]
    ctx.check(len(ls) == 1 and key(ls[0]["rhs"]) == "db->versions->last_sequence", "T6-capture-identity",
              "iterator:sequence", it.name, it.loc, "the iterator's sequence is read in the capture section",
              "iterator sequence comes from %s" % [key(x["rhs"]) for x in ls])
    ist = one_call(ctx, it, "ldb_istate_create")[0][2]
    from ..rules import value_source
    pins = [argkey(ist, 0)] + [value_source(it, ist["a"][k]) for k in range(1, 4)]
    ctx.check(pins == ["&db->mutex", "db->mem", "db->imm", "db->versions->current"],
              "T6-capture-identity", "iterator:pins", it.name, site(it, ist),
              "the cleanup state releases exactly the pinned objects", "istate built from %s" % pins)
    sp = ctx.fn("ldb_snapshot", DB)
    one_section(ctx, "T3d-capture-section", "ldb_snapshot", sp,
                lambda e: _reads("last_sequence", "versions")(e) or is_call(e, "ldb_snaplist_new"),
                "a snapshot's sequence is read and registered in one section", 2)
    sn = one_call(ctx, sp, "ldb_snaplist_new")[0][2]
    from ..rules import value_source
    sq = value_source(sp, sn["a"][1])
    ctx.check(sq == "db->versions->last_sequence", "T6-capture-identity", "snapshot:sequence",
              sp.name, site(sp, sn), "the snapshot records the sequence read in its section", "snapshot sequence is %s" % sq)
    ui = ctx.fn("ldb_iterator", DB)
    dc = one_call(ctx, ui, "ldb_dbiter_create")[0][2]
    a3 = strip_casts(dc["a"][3])
    ok = isinstance(a3, dict) and a3.get("k") == "cond" and key(a3["a"]) == "options->snapshot->sequence" and \
        key(a3["b"]) == "latest_snapshot" and key(a3["c"]) == "(options->snapshot != 0)"
    ctx.check(ok, "T6-capture-identity", "iterator:user-sequence", ui.name, site(ui, dc),
              "the user iterator reads at its snapshot or at the captured sequence", "iterator sequence argument is %s" % key(dc["a"][3]))


def check_writer(ctx):
    w = ctx.fn("ldb_write", DB)
    one_section(ctx, "T3d-allocate-section", "ldb_write", w,
                lambda e: (e["e"] == "asg" and key(e["lhs"]) == "last_sequence" and key(e["rhs"]) == "db->versions->last_sequence")
                or is_call(e, ("ldb_build_batch_group", "ldb_batch_set_sequence")),
                "the sequence range is read, the group built and stamped in the head writer's section", 3)
    always_before(ctx, "T1-head-then-allocate", "make_room<allocate", w,
                  lambda e: is_call(e, "ldb_make_room_for_write"),
                  lambda e: e["e"] == "asg" and key(e["lhs"]) == "last_sequence" and "last_sequence" in key(e["rhs"]) and e["op"] == "=",
                  "the sequence is read after the writer became queue head")
    pub = lambda e: e["e"] == "asg" and key(e["lhs"]) == "db->versions->last_sequence"
    never_after(ctx, "T1-publish-before-handoff", "done", w,
                lambda e: e["e"] == "asg" and key(e["lhs"]) == "ready->done", pub,
                "no follower is released before the group's sequence is published")
    never_after(ctx, "T1-publish-before-handoff", "next-head", w,
                lambda e: is_call(e, "ldb_cond_signal"), pub,
                "no writer is woken before the group's sequence is published")
    never_after(ctx, "T1-publish-before-handoff", "queue-shift", w,
                lambda e: is_call(e, "ldb_queue_shift"), pub,
                "the group leaves the queue only after its sequence is published")
    la = lockmodel.analysis(ctx)
    for fn, e, s, f, c, held, mode in la.accesses:
        if fn is w and s.startswith("ldb_versions") and f == "last_sequence" and e["mode"] in ("w", "rw") and mode == "mt":
            ctx.check("DB" in held, "T3-publish-under-lock", "last_sequence", w.name, site(w, e),
                      "the sequence is published with the DB mutex held", "last_sequence is stored without the DB mutex")
    # wait loop: only the queue head (or a served follower) proceeds
    conds = [key(b.term["cond"]) for b in w.blocks.values() if b.term is not None and "cond" in b.term]
    ctx.check(any("(&w) != db->writers.head" in c for c in conds) and any(c in ("(!w.done)", "w.done") for c in conds),
              "T2-head-writer-gate", "wait-predicate", w.name, w.loc,
              "a writer proceeds only as queue head or when served", "writer gate conditions are %s" % conds[:6])


def check_install(ctx):
    va = ctx.fn("ldb_versions_apply", "src/version_set.c")
    inst = lambda e: is_call(e, "ldb_versions_append_version") or \
        (e["e"] == "asg" and key(e["lhs"]) in ("vset->log_number", "vset->prev_log_number"))
    one_section(ctx, "T3d-install-section", "ldb_versions_apply", va, inst,
                "new version, log number and prev log number are installed in one section", 3)
    never_after(ctx, "T3d-install-section", "after-relock", va, inst, lambda e: is_call(e, UNLOCK),
                "nothing releases the mutex after the install")
    always_before(ctx, "T3d-install-section", "relock<install", va, lambda e: is_call(e, LOCK), inst,
                  "the install happens after the mutex was re-taken")
    av = ctx.fn("ldb_versions_append_version", "src/version_set.c")
    one_section(ctx, "T3d-install-section", "append_version", av,
                lambda e: e["e"] == "asg" and key(e["lhs"]) in ("vset->current", "v->prev", "v->next", "v->prev->next", "v->next->prev"),
                "current pointer and version list are updated together", 4)
    c03.check_retirement(ctx)


def check(ctx):
    from . import c01 as _c01
    _c01.check_cache_keys(ctx)     # two tables never share block-cache keys
    check_readers(ctx)
    check_writer(ctx)
    check_install(ctx)
    la = lockmodel.analysis(ctx)
    c10.check_exceptions(ctx, la)
    c04.check_group_ack(ctx)   # an acknowledged follower is part of the logged group
    c04.check_write(ctx)       # publication of the sequence number after the insert (linearization point of a write)
    _c01.check_compaction_drop(ctx)   # a background compaction never changes what the head reads (an acknowledged delete stays deleted)
