"""C17 Version metadata is encoded exactly and switched atomically.

Decided (structural necessary conditions):
  T7  tag values and LDB_NUM_LEVELS (compile-time witnesses);
  T6  per-tag field sequence of ldb_edit_export == ldb_edit_import == the
      standard MANIFEST layout; tag sets equal; unknown tag and short keys
      rejected;
  T2  ldb_versions_recover installs only with next-file, log-number and
      last-sequence seen, comparator mismatch refuses before builder_apply;
  T1  snapshot completeness of ldb_versions_write_snapshot;
  T1  CURRENT protocol: temp file written with sync, then renamed; newline
      required by the reader.
Not decided: replay equivalence on real histories, varint arithmetic.
"""
from .. import witness
from ..build import AnalysisBroken
from ..program import const_val, key, show, strip_casts
from ..rules import (fmt_atoms, BAD, argkey, check_automaton, check_guard, find_calls, holds, is_call,
                     must_pass_before_success, one_call, sequences_from, site, CALL)
from ..paths import xgraph

EXPLANATION = ("Static decision of the MANIFEST encoding/switch clauses of C17: compile-time witnesses for "
               "the tag constants, writer/reader field-sequence agreement per tag against the standard layout, "
               "dominance of the recover/install guards, and call-order automata for the CURRENT switch, "
               "all evaluated over every CFG path of the anchored functions in /repo's current source.")
RULE = ("obligation = one rule instance at one site (tag layout, guard, ordering); non-trivial = the instance "
        "matched at least one site and compared a pair / walked at least one path")
MIN_OBLIGATIONS = 30

# the standard LevelDB VersionEdit layout: tag -> fields after the tag
STANDARD = {
    "TAG_COMPARATOR": ("str",),
    "TAG_LOG_NUMBER": ("v64",),
    "TAG_PREV_LOG_NUMBER": ("v64",),
    "TAG_NEXT_FILE_NUMBER": ("v64",),
    "TAG_LAST_SEQUENCE": ("v64",),
    "TAG_COMPACT_POINTER": ("v32", "str"),
    "TAG_DELETED_FILE": ("v32", "v64"),
    "TAG_NEW_FILE": ("v32", "v64", "v64", "str", "str"),
}
ENC = {"ldb_buffer_varint32": "v32", "ldb_buffer_varint64": "v64", "ldb_buffer_export": "str",
       "ldb_ikey_export": "str", "ldb_slice_export": "str"}
DEC = {"ldb_varint32_slurp": "v32", "ldb_level_slurp": "v32", "ldb_varint64_slurp": "v64",
       "ldb_buffer_slurp": "str", "ldb_slice_slurp": "str"}


def _tag_of(e):
    """ldb_buffer_varint32(dst, TAG_x) -> 'TAG_x'"""
    if not is_call(e, "ldb_buffer_varint32"):
        return None
    a = strip_casts(e["a"][1]) if len(e.get("a", [])) > 1 else None
    if isinstance(a, dict) and a.get("k") == "int" and str(a.get("enum", "")).startswith("TAG_"):
        return a["enum"]
    return None


def _enc_kind(e):
    if e["e"] != "call":
        return None
    f = e.get("f") or (e.get("mac") or [None])[0]
    if f in ENC:
        return ENC[f]
    if f and (f.startswith("ldb_buffer_") and f not in ("ldb_buffer_init", "ldb_buffer_clear")
              and "dst" in (argkey(e, 0) or "")):
        return "?" + f
    return None


def _dec_kind(e):
    if e["e"] != "call":
        return None
    f = e.get("f") or (e.get("mac") or [None])[0]
    if f in DEC:
        return DEC[f]
    if f and f.endswith("_slurp"):
        return "?" + f
    if f and f.endswith("_read") and f.startswith("ldb_"):
        return "?" + f
    return None


def check_layout(ctx):
    P = ctx.P
    exp = ctx.fn("ldb_edit_export", "src/version_edit.c")
    imp = ctx.fn("ldb_edit_import", "src/version_edit.c")
    # writer
    writer = {}
    for b, i, e in exp.events("call"):
        t = _tag_of(e)
        if t is None:
            continue
        seqs = sequences_from(exp, b, i, _enc_kind, stop_event=lambda x: _tag_of(x) is not None)
        body = {tuple(k for k in s if isinstance(k, str)) for s in seqs}
        writer.setdefault(t, set()).update(body)
    ctx.require(len(writer) >= 6, "ldb_edit_export: tag writes not found (%d)" % len(writer))
    # reader
    sw = [b for b in imp.blocks.values() if b.term is not None and b.term["k"] == "SwitchStmt"]
    ctx.require(len(sw) == 1, "ldb_edit_import: expected exactly one switch over the tag")
    swb = sw[0]
    reader = {}
    has_default_reject = False
    for s in swb.succ:
        if s is None:
            continue
        lab = imp.blocks[s].label or {}
        if "case" in lab:
            t = lab["case"].get("enum") or str(const_val(lab["case"]))
            seqs = sequences_from(imp, s, -1, _dec_kind, stop_blocks={swb.id} | _loop_heads(imp, swb.id))
            okseq = set()
            for q in seqs:
                if q and q[-1][0] == "ret":
                    if q[-1][1] == 0:
                        continue       # rejection path
                    okseq.add(tuple(k for k in q if isinstance(k, str)) + ("<return %s>" % q[-1][1],))
                else:
                    okseq.add(tuple(k for k in q if isinstance(k, str)))
            reader[t] = okseq
        elif lab.get("default"):
            seqs = sequences_from(imp, s, -1, _dec_kind, stop_blocks={swb.id} | _loop_heads(imp, swb.id))
            has_default_reject = all(q and q[-1] == ("ret", 0) for q in seqs)
    ctx.check(has_default_reject, "T6-edit-unknown-tag", "default", imp.name, imp.loc,
              "unknown tags are rejected (default: return 0)",
              "an unknown tag is not rejected by ldb_edit_import")
    ctx.check(set(writer) == set(STANDARD), "T6-edit-tagset", "writer", exp.name, exp.loc,
              "writer emits exactly the standard tag set %s" % sorted(writer),
              "writer tag set %s differs from the standard %s" % (sorted(writer), sorted(STANDARD)))
    ctx.check(set(reader) == set(STANDARD), "T6-edit-tagset", "reader", imp.name, imp.loc,
              "reader handles exactly the standard tag set",
              "reader tag set %s differs from the standard %s" % (sorted(reader), sorted(STANDARD)))
    for t, std in sorted(STANDARD.items()):
        w = writer.get(t, set())
        r = reader.get(t, set())
        ctx.check(w == {std}, "T6-edit-layout", "writer:" + t, exp.name, exp.loc,
                  "fields after %s are %s" % (t, list(std)),
                  "fields written after %s are %s, standard layout is %s" % (t, sorted(w), list(std)))
        ctx.check(r == {std}, "T6-edit-layout", "reader:" + t, imp.name, imp.loc,
                  "fields decoded for %s are %s" % (t, list(std)),
                  "fields decoded for %s are %s, standard layout is %s" % (t, sorted(r), list(std)))
    # key length gates: every internal key taken from the record is >= 8 bytes before use
    for callee, nkeys in (("ldb_edit_set_compact_pointer", 1), ("ldb_edit_add_file", 2)):
        cs = find_calls(imp, callee)
        ctx.require(len(cs) == 1, "ldb_edit_import no longer calls %s exactly once" % callee)
        b, i, e = cs[0]
        atoms = xgraph(P, imp).must_at(b, i)
        keys = [argkey(e, len(e["a"]) - k - 1) for k in range(nkeys)]
        for kk in keys:
            var = kk.lstrip("&")
            ctx.check(holds(atoms, (">=", var + ".size", 8)), "T2-edit-keylen", "%s:%s" % (callee, var),
                      imp.name, site(imp, e),
                      "%s.size >= 8 dominates %s" % (var, callee),
                      "%s is passed to %s without the 8-byte internal-key gate" % (var, callee))


def _loop_heads(fn, swid):
    """Blocks from which the switch block is reached again (loop condition)."""
    heads = set()
    for b in fn.blocks.values():
        if b.term is not None and b.term["k"] in ("WhileStmt", "ForStmt", "DoStmt"):
            heads.add(b.id)
    return heads


def check_recover(ctx):
    P = ctx.P
    f = ctx.fn("ldb_versions_recover", "src/version_set.c")
    g = xgraph(P, f)
    inst = find_calls(f, "ldb_versions_append_version")
    ctx.require(len(inst) == 1, "ldb_versions_recover: install call not found")
    b, i, e = inst[0]
    atoms = g.must_at(b, i)
    for flag in ("have_next_file", "have_log_number", "have_last_sequence"):
        ok = holds(atoms, ("!=", flag, "0"))
        if not ok:
            # the flags only feed rc; accept rc == OK where every definition of rc on the
            # missing-flag branch is an error constant (checked by the path kernel)
            ok = _flag_forces_error(ctx, f, flag)
        ctx.check(ok, "T2-recover-required-field", flag, f.name, site(f, e),
                  "installing the recovered version requires %s" % flag,
                  "the recovered version is installed without %s" % flag)
    ctx.check(holds(atoms, ("==", "rc", "0")), "T2-recover-install-ok", "rc", f.name, site(f, e),
              "install is dominated by rc == LDB_OK", "install is reachable with rc != LDB_OK")
    # counters written from the decoded values
    want = {"manifest_file_number": "next_file", "next_file_number": "(next_file + 1)",
            "last_sequence": "last_sequence", "log_number": "log_number",
            "prev_log_number": "prev_log_number"}
    seen = {}
    for bb, ii, ee in f.events("asg"):
        l = strip_casts(ee["lhs"])
        if isinstance(l, dict) and l.get("k") == "mem" and l["f"] in want and key(l["b"]) == "vset":
            seen[l["f"]] = key(ee["rhs"])
    for fld, rhs in sorted(want.items()):
        ctx.check(seen.get(fld) == rhs, "T1-recover-counter", fld, f.name, f.loc,
                  "vset->%s = %s" % (fld, rhs),
                  "vset->%s is set from %s, expected %s" % (fld, seen.get(fld), rhs))
    # both log numbers are marked as used
    marks = sorted(argkey(ee, 1) for bb, ii, ee in find_calls(f, "ldb_versions_mark_file_number"))
    ctx.check(marks == ["log_number", "prev_log_number"], "T1-recover-mark", "log+prev", f.name, f.loc,
              "both log numbers are marked in the file-number allocator",
              "file numbers marked: %s (expected log_number and prev_log_number)" % marks)
    # comparator mismatch -> LDB_INVALID before builder_apply
    ba = find_calls(f, "builder_apply")
    ctx.require(len(ba) == 1, "ldb_versions_recover: builder_apply call not found")
    bb, ii, ee = ba[0]
    ctx.check(holds(g.must_at(bb, ii), ("==", "rc", "0")), "T2-recover-apply-ok", "builder_apply",
              f.name, site(f, ee), "builder_apply only runs with rc == LDB_OK",
              "builder_apply is reachable with a failed import/comparator check")
    # the comparator comparison exists and an unequal name sets a non-OK status
    cmp_ok = False
    for blk in f.blocks.values():
        for x, lit in f.edge_literals(blk.id):
            if lit and lit[0] not in ("case", "default"):
                s = key(lit[0])
                if "ldb_slice_equal" in s and "comparator" in s:
                    cmp_ok = True
    ctx.check(cmp_ok, "T2-recover-comparator", "name-compare", f.name, f.loc,
              "recorded comparator name is compared with the configured one",
              "no comparison of the recorded comparator name found")
    # ldb_reader_init(..., checksum=1, ...)
    for bb, ii, ee in one_call(ctx, f, "ldb_reader_init"):
        ctx.check(const_val(ee["a"][3]) not in (None, 0), "T2-manifest-checksum", "reader_init", f.name,
                  site(f, ee), "MANIFEST reader verifies checksums",
                  "MANIFEST reader created with checksum verification off")


def _flag_forces_error(ctx, f, flag):
    """`if (!flag) rc = <non-zero const>` exists and flag is not reassigned afterwards."""
    for blk in f.blocks.values():
        for s, lit in f.edge_literals(blk.id):
            if not lit or lit[0] in ("case", "default"):
                continue
            c = strip_casts(lit[0])
            neg = False
            while isinstance(c, dict) and c.get("k") == "un" and c.get("op") == "!":
                neg = not neg
                c = strip_casts(c["x"])
            if isinstance(c, dict) and c.get("k") == "var" and c["n"] == flag:
                pol = lit[1] != neg        # truth value of flag on this edge
                if pol:
                    continue
                tgt = f.blocks[s]
                for e in tgt.ev:
                    if e["e"] == "asg" and key(e["lhs"]) == "rc" and (const_val(e["rhs"]) or 0) != 0:
                        return True
    return False


def check_snapshot(ctx):
    f = ctx.fn("ldb_versions_write_snapshot", "src/version_set.c")
    calls = [e.get("f") for b, i, e in f.events("call")]
    for need in ("ldb_edit_set_comparator_name", "ldb_edit_set_compact_pointer", "ldb_edit_add_file",
                 "ldb_edit_export", "ldb_writer_add_record"):
        ctx.check(need in calls, "T1-snapshot-content", need, f.name, f.loc,
                  "snapshot record calls %s" % need, "snapshot record no longer calls %s" % need)
    # every level is visited: loop bound LDB_NUM_LEVELS on the loops around the two emitters
    for callee in ("ldb_edit_set_compact_pointer", "ldb_edit_add_file"):
        for b, i, e in find_calls(f, callee):
            atoms = xgraph(ctx.P, f).must_at(b, i)
            lvl = argkey(e, 1)
            ctx.check(holds(atoms, ("<", lvl, "7")) and not holds(atoms, ("<", lvl, 6)),
                      "T2-snapshot-all-levels", callee, f.name, site(f, e),
                      "%s runs for every level below LDB_NUM_LEVELS" % callee,
                      "%s is not run for all LDB_NUM_LEVELS levels" % callee)
    # export precedes the record write which is returned
    must_pass_before_success(ctx, "T1-snapshot-written", "add_record", f, None,
                             lambda e: is_call(e, "ldb_writer_add_record"),
                             "a successful snapshot has written the record")


def check_manifest_reader_fatal(ctx):
    """Damage in the MANIFEST is always fatal for open (only the WAL may be
    forgiven without paranoid_checks): the reader's reporter writes into the
    status that ldb_versions_recover returns, unconditionally - replay of a
    damaged descriptor would come up on a stale prefix of the edit history
    and the collector would delete the tables of the dropped edits."""
    f = ctx.fn("ldb_versions_recover", "src/version_set.c")
    st = [key(e["rhs"]) for b, i, e in f.events("asg") if key(e["lhs"]) == "reporter.status"]
    ctx.check(st == ["(&rc)"], "T2-manifest-checksum", "reporter-status", f.name, f.loc,
              "a damaged MANIFEST record always fails the recovery", "the MANIFEST reader reports into %s" % st)
    rp = [key(e["rhs"]) for b, i, e in f.events("asg") if key(e["lhs"]) == "reporter.corruption"]
    ctx.check(len(rp) == 1, "T2-manifest-checksum", "reporter-callback", f.name, f.loc, "a corruption callback is installed", "reporter.corruption = %s" % rp)
    if rp and ctx.P.has_fn(rp[0]):
        cb = ctx.fn(rp[0], "src/version_set.c")
        sts = [(b, i, e) for (b, i, e) in cb.events("asg") if "status" in key(e["lhs"]) and key(e["lhs"]).startswith("(*")]
        g = xgraph(ctx.P, cb)
        ctx.check(len(sts) == 1 and key(sts[0][2]["rhs"]) == "status" and
                  not any(a[1] == "reporter->status" or "paranoid" in a[1] for a in (g.must_at(sts[0][0], sts[0][1]) or ()) if a[0] in ("!=", "==") and a[2] == "0" and "(*reporter->status)" not in a[1]),
                  "T2-manifest-checksum", "callback-stores", cb.name, cb.loc,
                  "the callback records the first error", "corruption callback stores %s" % [key(e["rhs"]) for b, i, e in sts])


def check_edit_numbers(ctx):
    """ldb_versions_apply fills in the log numbers an edit does not carry and
    leaves alone the ones it does: the edit that retires a log says so by
    carrying prev_log_number = 0 / a new log_number."""
    f = ctx.fn("ldb_versions_apply", "src/version_set.c")
    g = xgraph(ctx.P, f)
    for setter, flag, src in (("ldb_edit_set_prev_log_number", "edit->has_prev_log_number", "vset->prev_log_number"),
                              ("ldb_edit_set_log_number", "edit->has_log_number", "vset->log_number")):
        cs = [(b, i, e) for (b, i, e) in f.events("call") if is_call(e, setter)]
        if not cs:
            ctx.bad("T2-apply-edit-numbers", setter, f.name, f.loc, "%s is no longer called" % setter)
            continue
        for b, i, e in cs:
            atoms = g.must_at(b, i)
            ctx.check(holds(atoms, ("==", flag, "0")) and argkey(e, 1) == src, "T2-apply-edit-numbers", "%s@%s" % (setter, e["l"].split(":")[1]),
                      f.name, site(f, e), "%s is filled in from the version set only if the edit does not carry one" % flag.split("has_")[1],
                      "%s(%s) is reachable although the edit carries its own value; facts %s" % (setter, argkey(e, 1), fmt_atoms(atoms)))


def check_current(ctx):
    P = ctx.P
    f = ctx.fn("ldb_set_current_file", "src/filename.c")
    wf = one_call(ctx, f, "ldb_write_file")[0][2]
    ctx.check(const_val(wf["a"][2]) not in (None, 0), "T1-current-sync", "write_file(sync)", f.name,
              site(f, wf), "temp CURRENT content is written with should_sync != 0",
              "temp CURRENT content is written without sync")
    rn = one_call(ctx, f, "ldb_rename_file")[0]
    ctx.check(argkey(rn[2], 0) == argkey(wf, 0), "T1-current-rename-src", "tmp", f.name, site(f, rn[2]),
              "the renamed file is the one just written", "rename source is not the written temp file")
    check_guard(ctx, "T2-current-rename-after-write", "rename", f, rn,
                [[("==", "rc", "0")]], "rename tmp -> CURRENT", keep_calls=("ldb_write_file",))
    # CURRENT is replaced by the rename alone: nothing in this function removes, truncates or rewrites the file the
    # rename targets (a crash between an unlink and the rename would leave a database without CURRENT)
    curk = argkey(rn[2], 1)
    DESTR = ("ldb_remove_file", "ldb_write_file", "ldb_truncfile_create", "ldb_wfile_create", "ldb_appendfile_create",
             "ldb_truncate_file", "unlink", "remove", "truncate", "ldb_copy_file", "ldb_link_file")
    hits = [e for b, i, e in f.events("call")
            if (is_call(e, DESTR) and curk in [argkey(e, k) for k in range(len(e.get("a", ())))]) or
            (is_call(e, "ldb_rename_file") and argkey(e, 0) == curk)]
    ctx.check(not hits, "T1-current-replaced-atomically", "only-rename-touches-CURRENT", f.name,
              site(f, hits[0]) if hits else f.loc, "the CURRENT file is touched only as the target of the rename",
              "CURRENT (`%s`) is removed / rewritten by %s outside the atomic rename: a crash there leaves no CURRENT"
              % (curk, [x.get("f") for x in hits]))
    must_pass_before_success(ctx, "T1-current-order", "write->rename", f, None,
                             lambda e: is_call(e, "ldb_rename_file"),
                             "success of ldb_set_current_file implies the rename happened")
    # the rename is the commit point: a failure reported after it makes the caller delete the MANIFEST that CURRENT
    # now names.  Nothing fallible is reported after a successful rename(2) / ldb_rename_file.
    from ..rules import returned_after, never_after
    rf = ctx.fn("ldb_rename_file", "src/util/env_unix_impl.h")

    def rename_ok(lit):
        if lit[0] in ("case", "default"):
            return False
        from ..paths import norm_literal
        for op, a, b2 in norm_literal(lit[0], lit[1]):
            if op == "==" and ((a.startswith("rename(") and b2 == "0") or (b2.startswith("rename(") and a == "0")):
                return True
        return False
    vals = returned_after(ctx, rf, arm_edge=rename_ok)
    ctx.check(vals == {0}, "T1-current-commit-point", "rename_file", rf.name, rf.loc,
              "once rename(2) succeeded ldb_rename_file reports success", "after a successful rename(2) ldb_rename_file can return %s" % sorted(map(str, vals)))
    never_after(ctx, "T1-current-commit-point", "set_current_file", f, lambda e: is_call(e, "ldb_rename_file"),
                lambda e: e["e"] == "asg" and key(e["lhs"]) == "rc" and not key(e["rhs"]).startswith("ldb_rename_file("),
                "the status of the rename is the status of ldb_set_current_file")
    rets = [key(e.get("x")) for b, i, e in f.events("ret") if e.get("x") is not None and const_val(e.get("x")) is None]
    ctx.check(rets == ["rc"], "T1-current-commit-point", "set_current_file:returns-rc", f.name, f.loc,
              "ldb_set_current_file returns the collected status", "ldb_set_current_file returns %s" % rets)
    # ldb_write_file: sync (when asked) before close, close before success
    w = ctx.fn("ldb_write_file", "src/util/env.c")
    must_pass_before_success(ctx, "T1-writefile-sync", "sync-when-asked", w, lambda e: is_call(e, "ldb_wfile_append"),
                             lambda e: is_call(e, "ldb_wfile_sync"),
                             "ldb_write_file(should_sync) syncs before reporting success",
                             edge_pass=lambda lit: key(lit[0]) == "should_sync" and lit[1] is False)
    from ..rules import always_before
    always_before(ctx, "T1-writefile-sync-before-close", "sync<close", w,
                  lambda e: is_call(e, "ldb_wfile_append"), lambda e: is_call(e, "ldb_wfile_close"),
                  "close happens after the data was appended")
    # reader: CURRENT must end in newline
    r = ctx.fn("read_current_filename", "src/version_set.c")
    j = one_call(ctx, r, "ldb_join")[0]
    atoms = xgraph(P, r).must_at(j[0], j[1])
    ctx.check(holds(atoms, ("!=", "len", "0")) and holds(atoms, ("==", "re:name\\[.*\\]", "10")),
              "T2-current-newline", "read_current_filename", r.name, site(r, j[2]),
              "CURRENT content is used only if non-empty and newline-terminated",
              "CURRENT content is used without the non-empty/newline check")


def check_deleted_set_order(ctx):
    """The set of deleted files of an edit is keyed by (level, number): its
    comparator separates any two different pairs, for every pair of 64-bit
    file numbers (a truncated difference merges or misorders entries, and the
    edit then loses deleted-file fields on export and on import)."""
    from ..rules import Narrowing, Unsupported, cfg_sign_triple
    f = ctx.fn("file_entry_compare", "src/version_edit.c")
    ini = [e for b, i, e in ctx.fn("ldb_edit_init", "src/version_edit.c").events("call")
           if is_call(e, "rb_set_init") and argkey(e, 0) == "&edit->deleted_files"]
    ctx.check(len(ini) == 1 and argkey(ini[0], 1) == "file_entry_compare", "T8-deleted-set-order", "comparator-installed", f.name, f.loc,
              "the deleted-file set is ordered by file_entry_compare", "deleted-file set comparator: %s" % [argkey(e, 1) for e in ini])
    for inst, a, b, ties in (("by-level", "xp->level", "yp->level", (("xp->number", "yp->number"),)),
                             ("by-number", "xp->number", "yp->number", (("xp->level", "yp->level"),))):
        try:
            tr = cfg_sign_triple(f, a, b, ties=ties)
        except Narrowing as u:
            ctx.bad("T8-deleted-set-order", inst, f.name, f.loc, "file_entry_compare: %s" % u)
            continue
        except Unsupported as u:
            raise AnalysisBroken("file_entry_compare: %s" % u)
        ctx.check(tr[1] == 0 and tr[0] * tr[2] < 0, "T8-deleted-set-order", inst, f.name, f.loc,
                  "entries that differ %s are kept apart and ordered, whatever the values" % inst.replace("-", " "),
                  "sign triple of file_entry_compare %s is %s" % (inst, tr))


def check(ctx):
    check_manifest_reader_fatal(ctx)
    check_deleted_set_order(ctx)
    from . import c19 as _c19
    _c19.check_descriptor(ctx)     # repair installs its MANIFEST-000001 so that CURRENT names an existing file
    check_edit_numbers(ctx)
    from . import c14
    c14.check_level_loops(ctx)     # the MANIFEST snapshot covers every level
    witness.run(ctx, "C17")
    check_layout(ctx)
    check_recover(ctx)
    check_snapshot(ctx)
    check_current(ctx)
    from . import c02, c03
    c02.check_manifest(ctx)    # CURRENT always names a complete MANIFEST
    c03.check_reuse_manifest_offset(ctx)   # a reused MANIFEST keeps the record framing
