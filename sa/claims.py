"""Which properties are claimed, and what each claim means (feeds MANIFEST.json)."""

_TB = ("Trusted base: clang 14 parser/CFG builder, tools/lcdbfacts.cc, the rule engines in sa/ and the frozen "
       "instance tables in sa/props. Anchors are found by function/struct/field name; a vanished anchor is exit 2. "
       "Only the POSIX/pthread/GNU-atomics configuration of the shipped build is analysed (env_win_impl.h and "
       "env_mem_impl.h are not).")

CLAIMS = {
    "C17": {
        "text": "Decides, on every CFG path of the anchored functions, the structural clauses of C17: tag constants "
                "(compile-time witnesses), per-tag field sequence of ldb_edit_export and ldb_edit_import against the "
                "standard MANIFEST layout, recover/install guards, snapshot completeness and the CURRENT "
                "write-sync-rename protocol. It does not decide replay equivalence on real histories.",
        "design_ref": "DESIGN.md 5/C17",
        "technique": "static analysis: _Static_assert witnesses + writer/reader sibling agreement + guard dominance and must-pass-through on the clang CFG",
        "note": "Necessary conditions only (a pass does not prove round-trip for all values). " + _TB,
    },
}

CLAIMS["C02"] = {
    "text": "Decides the durability-ordering clauses of C02 on every feasible CFG path: log sync before a sync write is "
            "acknowledged (and never a sync follower behind a non-sync leader), sync = dir-sync, flush, fsync in order, "
            "tables finished/synced/closed before they enter an edit, MANIFEST record synced before CURRENT is switched and "
            "before the version is installed, obsolete files removed only after the new state is durable or the error was "
            "latched, and a who-may-unlink/rename table. The file-system crash model itself is not decided.",
    "design_ref": "DESIGN.md 5/C02",
    "technique": "static analysis: path-sensitive must-pass-through / call-order automata and guard dominance on the clang CFG, plus who-may-call tables",
    "note": "Necessary conditions only: a pass says no durability point was dropped, reordered or moved to another file; "
            "it does not enumerate crash images. " + _TB,
}

CLAIMS["C03"] = {
    "text": "Decides the process-crash clauses of C03 on every feasible path: the log record reaches write(2) before the "
            "memtable insert and before any follower is acknowledged; recovery replays a log iff number >= log_number or "
            "== prev_log_number (guard equivalence in both directions), in ascending order (comparator sign analysis), "
            "marks each replayed number, folds max sequence; logs are retired in an edit only after the flush that emptied "
            "them succeeded; the memtable switch is one critical section; reused logs/MANIFESTs are appended at their "
            "measured length; CURRENT is touched only as the target of the atomic rename (never unlinked or rewritten in place). "
            "It does not decide equality of the recovered state with the fold of batches.",
    "design_ref": "DESIGN.md 5/C03",
    "technique": "static analysis: path-sensitive call-order automata, guard equivalence over branch edges, comparator ordering analysis on the clang CFG",
    "note": "Necessary conditions only. " + _TB,
}
CLAIMS["C04"] = {
    "text": "Decides the atomicity clauses of C04: one log record per commit group, fed from the same batch object that is "
            "inserted; the visible sequence number is published only after the memtable insert and after the relock "
            "(never between allocation and insert); LDB_OK from batch decoding requires the entry count to match; the log "
            "reader delivers a logical record only complete (FULL, or LAST inside a started record) and discards partial "
            "state on a bad fragment. Atomicity as observed in a concrete concurrent history is not decided.",
    "design_ref": "DESIGN.md 5/C04",
    "technique": "static analysis: event-order automata over all feasible CFG paths and guard dominance; compile-time witness for the batch header",
    "note": "Necessary conditions only. " + _TB,
}
CLAIMS["C05"] = {
    "text": "Decides the recovery clauses of C05: a torn log tail is end-of-file and never reported as corruption; the "
            "missing-file error is raised only for a really expected file and replay starts only with a complete file "
            "set; after a failed recover nothing is applied, scheduled or garbage-collected and the handle is destroyed; "
            "replay errors are ignored only with paranoid_checks off. That every crash image opens is not decided.",
    "design_ref": "DESIGN.md 5/C05",
    "technique": "static analysis: guard dominance and exit automata on the clang CFG of the recovery path",
    "note": "Necessary conditions only; MANIFEST/CURRENT ordering is decided under C02, replay set and counters under C03. " + _TB,
}
CLAIMS["C15"] = {
    "text": "Decides the framing clauses of C15: log-format constants (compile-time witnesses), header byte offsets and CRC "
            "coverage of writer and reader against the standard layout, mask/unmask inverse rotations, block switch at "
            "fewer than 7 bytes, fragment typing from (begin,end), torn tail = EOF without report, reassembly returns, a CRC "
            "mismatch discards the whole buffered block (the length field is untrusted). "
            "Byte-for-byte equality with a reference encoder for all inputs and resynchronisation are not decided.",
    "design_ref": "DESIGN.md 5/C15",
    "technique": "static analysis: _Static_assert witnesses, writer/reader sibling agreement on expression shape, guard dominance on the clang CFG",
    "note": "Necessary conditions only. " + _TB,
}

CLAIMS["C10"] = {
    "text": "Decides the lockset and memory-order clauses of C10 for the whole library: an interprocedural lock-state "
            "analysis (every root, every feasible path, callbacks resolved through function-pointer slots) shows that "
            "each access to a lock-guarded field (about 60 fields of the handle, version set, versions, memtable/file "
            "refcounts, snapshot list, writer queue, LRU shards, thread pool) is made with its lock class held, that every "
            "ldb_mutex_assert_held contract and every cond_wait holds its mutex, that the listed lock-free exceptions are "
            "confined (head-writer protocol, serialised MANIFEST writer, private stack objects), and that atomics are used "
            "only through atomic builtins with at least release/acquire order, with the no-barrier skiplist accessors "
            "confined to the single-writer insert and publish-after-link ordering. Races through user callbacks or "
            "inside libc are not decided.",
    "design_ref": "DESIGN.md 5/C10",
    "technique": "static analysis: interprocedural lock-state (lockset) dataflow over the clang CFG and call graph + atomic-order table",
    "note": "Lock identity is syntactic (one mutex per class per handle; three aliases listed in sa/locks.py). "
            "The guarded-field table and the exception table are part of the trusted base. " + _TB,
}

CLAIMS["C09"] = {
    "text": "Decides the structural liveness clauses of C09: every function returns with the lock state it was entered "
            "with in every reachable lock context (all exits, incl. error paths); no lock class is re-acquired while "
            "held; the lock-order graph over classes is acyclic and equals the confirmed set of edges; every cond_wait "
            "sits in a loop that re-tests a shared predicate with its mutex held, and a loop waiting for background "
            "progress cannot go round without testing the error latch; every enabling store to a waited-for field "
            "(scheduled flag, imm, bg_error, manual compaction, version install, writer hand-off, pool state) is followed "
            "by a wake-up on the matching condition before the thread leaves its root (interprocedural); wake-ups on the "
            "shared background condition are broadcasts; close raises shutting_down before waiting; the background call "
            "always clears its flag and broadcasts. OS scheduling/starvation and timing are not decided.",
    "design_ref": "DESIGN.md 5/C09",
    "technique": "static analysis: interprocedural lock-state dataflow, CFG cycle analysis of wait loops, interprocedural must-signal-after-store automata",
    "note": "Necessary conditions for absence of deadlock / lost wake-up; the wait table and BROADCAST_ONLY table are frozen from "
            "reading the code. " + _TB,
}

CLAIMS["C08"] = {
    "text": "Decides the critical-section clauses behind C08: readers (get, iterator, snapshot) capture memtable, immutable "
            "memtable, current version and sequence number inside one section of the DB mutex and pin/search exactly the "
            "captured objects; the writer reads and stamps its sequence range in the section in which it is queue head and "
            "publishes it under the mutex after the insert and before any follower is released, the queue is shifted or the "
            "next head is woken; memtable switch and version install are single sections after the relock; the lock-free "
            "head-writer accesses are confined; a background compaction drops an entry only under the two snapshot-bounded rules "
            "(an acknowledged delete cannot reappear at the head). Linearizability of concrete histories is not decided.",
    "design_ref": "DESIGN.md 5/C08",
    "technique": "static analysis: critical-section identity automata over all feasible CFG paths + interprocedural lock-state contexts",
    "note": "Necessary conditions only. " + _TB,
}

CLAIMS["C13"] = {
    "text": "Decides the file-lifetime clauses of C13: the collector's live set is pending outputs plus every file of every "
            "version in the version list (all levels), computed, listed and classified in one section of the DB mutex; each "
            "file type's keep predicate equals the specified one (equivalence, so both deleting a needed file and leaking an "
            "unneeded one are caught); all seven file types are handled; only parsed, not-kept names are deleted and deleted "
            "tables are evicted; new outputs are registered in pending_outputs in the allocating section before the file "
            "exists and un-registered only after build / at compaction cleanup; readers and compactions pin and release "
            "exactly the versions/memtables they use on every exit; versions die at refcount zero; the file-number counter is "
            "written only by the allocator functions with their guards; the collector is called only from open and the "
            "background thread. Directory contents at quiescent points of real histories are not decided.",
    "design_ref": "DESIGN.md 5/C13",
    "technique": "static analysis: DNF equivalence of guard predicates, switch exhaustiveness, call-order automata, critical-section identity, who-writes tables",
    "note": "Necessary conditions only. " + _TB,
}

CLAIMS["C20"] = {
    "text": "Decides the lifecycle clauses of C20: the database lock is taken before recovery reads or writes anything, "
            "lives in the handle and is released by close and by a failed open; backup, copy and destroy release their lock "
            "on every exit; ldb_lock_file refuses a second lock in the same process, registers the file id only after the OS "
            "lock succeeded, closes the descriptor on every failure path; ldb_backup computes the live set and copies inside "
            "the DB section in which no background call is scheduled, only with no latched error, only into the backup "
            "directory; ldb_destroy removes only parsed names under the lock, LOCK file last after unlock; a comparator "
            "mismatch is refused before any edit is applied or anything is written. Backup contents and concurrent writers "
            "during backup are not decided.",
    "design_ref": "DESIGN.md 5/C20",
    "technique": "static analysis: acquire/release pairing automata on all exits, call-order and guard-dominance rules, critical-section identity",
    "note": "Necessary conditions only. " + _TB,
}

CLAIMS["C12"] = {
    "text": "Decides the error-discipline clauses of C12 over the whole library: no status of the ~80 status functions "
            "and no result of the ~40 parse/build functions is dropped (discarded, cast to void, or stored into a local that "
            "is overwritten or never read) at any of their call sites, except a (caller, callee) table with reasons; every "
            "failing path of memtable flush, compaction, trivial move, log sync and old-log close latches bg_error, which is "
            "never cleared, stops scheduling and is yielded first by the writer stall loop; outputs of failed builds are "
            "removed / destroyed / not installed and the write buffer is emptied on every flush return; every abort() site "
            "is dominated by a non-I/O cause (allocation, pthread, clock, file-name capacity, empty queue). Contents after "
            "reopen are not decided.",
    "design_ref": "DESIGN.md 5/C12",
    "technique": "static analysis: liveness-based dropped-status analysis over the call graph's status domain, must-pass automata for the error latch, abort-site classification by dominating guard",
    "note": "The exception table (DROP_OK) and abort-cause table are frozen and part of the trusted base. " + _TB,
}

CLAIMS["C01"] = {
    "text": "Decides read-path and compaction clauses of C01: lookup precedence (memtable, then immutable memtable, then "
            "files) as branch-edge automata; level-0 candidates sorted with a comparator whose abstractly evaluated sign "
            "triple is newest-first, search stops at the first decisive callback answer, levels in ascending order; internal "
            "keys with equal user key ordered by descending tag (comparator CFG evaluated under the three operand "
            "orderings); an entry is dropped by a compaction only under rule (A) newer entry at/below the oldest snapshot or "
            "(B) tombstone at/below it at the base level, with the per-key sequence bookkeeping; inputs extended by boundary "
            "files; a manual compaction shortens its input list only above level 0; memtable output level only without overlap; data block skipped only on a negative filter answer; "
            "tombstones end the search in memtable and tables. Seek correctness, binary searches and cache-key uniqueness "
            "are not decided.",
    "design_ref": "DESIGN.md 5/C01",
    "technique": "static analysis: branch-edge automata, guard dominance, abstract ordering analysis of comparator CFGs, call-order rules",
    "note": "Necessary conditions only. " + _TB,
}
CLAIMS["C06"] = {
    "text": "Decides the snapshot clauses of C06: the compaction drop bound is the OLDEST live snapshot (list is append-at-tail, "
            "oldest = head.next) or last_sequence when none; the two drop rules (shared with C01); the user iterator lets an "
            "entry influence its view only if sequence <= iterator sequence (exact match: a stricter filter is also flagged), "
            "seeks with its sequence, which is set once from the snapshot or the capture section; the snapshot list is "
            "modified only by ldb_snapshot / ldb_release; every function handed read options (they carry the snapshot) forwards "
            "that same object to its callees. Observed contents are not decided.",
    "design_ref": "DESIGN.md 5/C06",
    "technique": "static analysis: guard dominance (exact and by implication) and provenance rules on the clang CFG",
    "note": "Necessary conditions only. " + _TB,
}
CLAIMS["C11"] = {
    "text": "Decides the detection clauses of C11: block bytes are interpreted only after a complete successful read and, with "
            "verify_checksums, only across the edge on which the CRC matched; mismatch is LDB_CORRUPTION; CRC covers contents "
            "+ type; verification is switched on from paranoid_checks at table open, meta/filter blocks and compaction inputs, "
            "and log/MANIFEST readers verify records and deliver a physical record only after its CRC matched; iterator "
            "statuses are read before destruction at the listed sites and aggregated by composite iterators; a failed or "
            "corrupt table read ends a lookup as an error, not as not-found; the log reader never silently skips buffered "
            "data in mid-log nor completes a record across a damaged fragment. That a flipped bit changes the CRC is not "
            "decided.",
    "design_ref": "DESIGN.md 5/C11",
    "technique": "static analysis: checksum-before-use edge automata, guard dominance, status-consumption automata on the clang CFG",
    "note": "Necessary conditions only. " + _TB,
}
CLAIMS["C16"] = {
    "text": "Decides the format clauses of C16: table-format constants (compile-time witnesses: magic, footer/handle/trailer "
            "sizes, compression codes, filter base, value types, max sequence, snappy tags); block trailer layout and CRC "
            "coverage of writer and reader against the standard; type byte consistent with what was written; unknown block "
            "type rejected; footer = two handles, padding to 40, magic, read only from a 48-byte footer with the right magic; "
            "filters never reject on malformed data. Entry round-trip and Snappy are not decided.",
    "design_ref": "DESIGN.md 5/C16",
    "technique": "static analysis: _Static_assert witnesses, writer/reader sibling agreement on expression shape, guard dominance",
    "note": "Necessary conditions only. " + _TB,
}

CLAIMS["C18"] = {
    "text": "Decides a table of structural safety obligations for the decoders (C18): about 50 guard rows - each listed "
            "dangerous operation (byte read through a cursor, index/offset/length taken from file bytes, memcpy of a decoded "
            "length, restart-array and filter-offset arithmetic, snappy literal and back-reference copies) is dominated on "
            "every path by its bounds predicate (matched by implication); cursor advance and remaining-length decrease are "
            "paired; shifts by non-constant amounts are bounded below the operand width (varint loops, masked filter "
            "base_lg) and new unbounded shift/division sites are flagged; decoder loops consume input every round; every "
            "parse result is consumed; no abort() is reachable on rejected input. General absence of out-of-bounds accesses "
            "(relational pointer/length invariants across calls) and termination of binary searches are NOT decided.",
    "design_ref": "DESIGN.md 5/C18",
    "technique": "static analysis: table-driven guard dominance on the clang CFG, cursor-pairing and arithmetic-bound rules, liveness-based result consumption",
    "note": "Partial by construction: the guard table is frozen from reading every decoder; an operation not in the table is "
            "not checked. " + _TB,
}
CLAIMS["C19"] = {
    "text": "Decides the structural clauses of C19: repair pipeline order; file-number counter above every number seen and "
            "handed out; last sequence = max over surviving tables; every scanned table added; old MANIFESTs archived before "
            "the new descriptor takes its fixed name, CURRENT switched last; repair archives and never deletes database "
            "files; and the level-0 provenance rule - a table placed at level 0 must carry a freshly allocated number (or be "
            "a re-emitted current file) because level-0 lookups are newest-number-first. The last rule reports the known "
            "finding F1 (repair places surviving tables at level 0 under on-disk numbers). Contents after repair are not "
            "decided.",
    "design_ref": "DESIGN.md 5/C19, 7/F1",
    "technique": "static analysis: call-order automata, counter-dominance and argument-provenance rules on the clang CFG",
    "note": "F1 is a genuine defect of the unchanged tree (reproduction in findings/F1), listed in known_findings.json, not fixed. " + _TB,
}

CLAIMS["C14"] = {
    "text": "Decides only structural necessary conditions of C14: the version builder orders files by smallest key with "
            "ties by ascending number (comparator sign analysis) and emits a pre-existing file before an added one only while "
            "it sorts before it; a file is carried over iff the edit did not delete it; recorded bounds and size of a flushed "
            "or compacted table are those of the entries written (smallest = first key, largest = last key, size read after "
            "finish); outputs enter level+1, flushes the overlap-free level, trivial moves need an empty next-level overlap, "
            "inputs of both levels are retired by the installing edit, only level 0 is searched as overlapping; the MANIFEST "
            "snapshot re-emits all levels. Sortedness, disjointness and recency of concrete layouts are NOT decided (runtime "
            "metadata; the in-code assertions are compiled out).",
    "design_ref": "DESIGN.md 12.7",
    "technique": "static analysis: comparator ordering analysis, guard dominance and call-order rules on the clang CFG",
    "note": "Partial by construction; added in the build round after the design had declared C14 not applicable (see DESIGN 12.7). " + _TB,
}

CLAIMS["C07"] = {
    "text": "Decides only structural necessary conditions of C07, each by enumerating the call sequences of a small iterator "
            "function under every valuation of the predicates it branches on and comparing them with the composition a sorted "
            "map dictates: seek_ge/gt/le/lt are the right compositions of seek/next/prev/last; the merging iterator positions "
            "every child, selects the head by a strict comparison among valid children, records its direction, and on a "
            "direction change re-positions every non-current child relative to the current key; the two-level iterator steps, "
            "re-seeks and skips empty blocks in the direction of the operation and its forward and backward halves are mirror "
            "images; the user-level iterator (db_iter.c) treats each entry of the internal stream as a sorted map over (user key, "
            "newest visible version) dictates - forward and backward scan per entry kind, next/prev incl. the direction switch, "
            "seek/first/last, key/value by direction - and compares user keys with the user comparator; iterators hide entries "
            "newer than their sequence (shared with C06) and pin the memtables and version they read (shared with C13). The "
            "position after a concrete call sequence, agreement of forward and backward traversals on concrete data and the "
            "block-level search are NOT decided.",
    "design_ref": "DESIGN.md 12.9",
    "technique": "static analysis: call-sequence enumeration on the clang CFG under assumed predicate valuations (composition "
                 "tables), mirror-symmetry sibling agreement, guard dominance",
    "note": "Partial by construction; added in the build round after the design had declared C07 not applicable (see DESIGN 12.9). " + _TB,
}

_PENDING = ("check not built yet in this revision; the property is listed here so that it is not claimed "
            "without machinery (see DESIGN.md for the planned rules)")

NOT_APPLICABLE = {
}
for _p in ["C01", "C02", "C03", "C04", "C05", "C06", "C08", "C09", "C10", "C11", "C12", "C13", "C15", "C16",
           "C18", "C19", "C20"]:
    if _p not in CLAIMS:
        NOT_APPLICABLE[_p] = _PENDING
