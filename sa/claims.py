"""Which properties are claimed, and what each claim means (feeds MANIFEST.json)."""

_TB = ("Trusted base: clang 14 parser/CFG builder, tools/lcdbfacts.cc, the rule engines in sa/ and the frozen "
       "instance tables in sa/props. Anchors are found by function/struct/field name; a vanished anchor is exit 2. "
       "Only the POSIX/pthread/GNU-atomics configuration of the shipped build is analysed (env_win_impl.h and "
       "env_mem_impl.h are not).")

CLAIMS = {
    "C17": {
        "text": "Decides, on every CFG path of the anchored functions, the structural clauses of C17: tag constants "
                "(compile-time witnesses), per-tag field sequence of ldb_edit_export and ldb_edit_import against the "
                "standard MANIFEST layout, recover/install guards, snapshot completeness and the CURRENT "
                "write-sync-rename protocol. It does not decide replay equivalence on real histories.",
        "design_ref": "DESIGN.md 5/C17",
        "technique": "static analysis: _Static_assert witnesses + writer/reader sibling agreement + guard dominance and must-pass-through on the clang CFG",
        "note": "Necessary conditions only (a pass does not prove round-trip for all values). " + _TB,
    },
}

_PENDING = ("check not built yet in this revision; the property is listed here so that it is not claimed "
            "without machinery (see DESIGN.md for the planned rules)")

NOT_APPLICABLE = {
    "C07": "Positioning, completeness and bidirectional agreement of iterators are functions of the runtime key "
           "sequence in merged children; no clause beyond version/memtable pinning (decided under C13) is visible "
           "in code shape, and a structural proxy for the direction-switch logic would be a frozen fragment.",
    "C14": "Well-formedness of the level layout (sortedness, disjointness, per-key recency across levels, bounds "
           "equal to contents) is an invariant over runtime file metadata; the only in-code checks are "
           "NDEBUG-compiled assertions, and static rules on the arithmetic of level+1 edits would fire on "
           "behaviour-preserving refactors.",
}
for _p in ["C01", "C02", "C03", "C04", "C05", "C06", "C08", "C09", "C10", "C11", "C12", "C13", "C15", "C16",
           "C18", "C19", "C20"]:
    if _p not in CLAIMS:
        NOT_APPLICABLE[_p] = _PENDING
