"""Which properties are claimed, and what each claim means (feeds MANIFEST.json)."""

_TB = ("Trusted base: clang 14 parser/CFG builder, tools/lcdbfacts.cc, the rule engines in sa/ and the frozen "
       "instance tables in sa/props. Anchors are found by function/struct/field name; a vanished anchor is exit 2. "
       "Only the POSIX/pthread/GNU-atomics configuration of the shipped build is analysed (env_win_impl.h and "
       "env_mem_impl.h are not).")

CLAIMS = {
    "C17": {
        "text": "Decides, on every CFG path of the anchored functions, the structural clauses of C17: tag constants "
                "(compile-time witnesses), per-tag field sequence of ldb_edit_export and ldb_edit_import against the "
                "standard MANIFEST layout, recover/install guards, snapshot completeness and the CURRENT "
                "write-sync-rename protocol. It does not decide replay equivalence on real histories.",
        "design_ref": "DESIGN.md 5/C17",
        "technique": "static analysis: _Static_assert witnesses + writer/reader sibling agreement + guard dominance and must-pass-through on the clang CFG",
        "note": "Necessary conditions only (a pass does not prove round-trip for all values). " + _TB,
    },
}

CLAIMS["C02"] = {
    "text": "Decides the durability-ordering clauses of C02 on every feasible CFG path: log sync before a sync write is "
            "acknowledged (and never a sync follower behind a non-sync leader), sync = dir-sync, flush, fsync in order, "
            "tables finished/synced/closed before they enter an edit, MANIFEST record synced before CURRENT is switched and "
            "before the version is installed, obsolete files removed only after the new state is durable or the error was "
            "latched, and a who-may-unlink/rename table. The file-system crash model itself is not decided.",
    "design_ref": "DESIGN.md 5/C02",
    "technique": "static analysis: path-sensitive must-pass-through / call-order automata and guard dominance on the clang CFG, plus who-may-call tables",
    "note": "Necessary conditions only: a pass says no durability point was dropped, reordered or moved to another file; "
            "it does not enumerate crash images. " + _TB,
}

_PENDING = ("check not built yet in this revision; the property is listed here so that it is not claimed "
            "without machinery (see DESIGN.md for the planned rules)")

NOT_APPLICABLE = {
    "C07": "Positioning, completeness and bidirectional agreement of iterators are functions of the runtime key "
           "sequence in merged children; no clause beyond version/memtable pinning (decided under C13) is visible "
           "in code shape, and a structural proxy for the direction-switch logic would be a frozen fragment.",
    "C14": "Well-formedness of the level layout (sortedness, disjointness, per-key recency across levels, bounds "
           "equal to contents) is an invariant over runtime file metadata; the only in-code checks are "
           "NDEBUG-compiled assertions, and static rules on the arithmetic of level+1 edits would fire on "
           "behaviour-preserving refactors.",
}
for _p in ["C01", "C02", "C03", "C04", "C05", "C06", "C08", "C09", "C10", "C11", "C12", "C13", "C15", "C16",
           "C18", "C19", "C20"]:
    if _p not in CLAIMS:
        NOT_APPLICABLE[_p] = _PENDING
