"""Self-validation of the checkers: seeded mutations (must fire) and neutral
rewrites (must stay silent), applied to scratch copies of the current tree.
Never part of a property verdict (DESIGN.md section 9)."""
import json
import os
import shutil
import subprocess
import sys
import tempfile
from concurrent.futures import ThreadPoolExecutor

from .build import REPO, VERIF


def load_table():
    from mutants.table import MUTANTS, NEUTRAL
    return MUTANTS, NEUTRAL


def make_scratch(edits):
    """edits: list of (relative file, old, new).  Returns dir or (None, reason)."""
    d = tempfile.mkdtemp(prefix="lcdb-mut.", dir="/tmp")
    for sub in ("src", "include"):
        shutil.copytree(os.path.join(REPO, sub), os.path.join(d, sub))
    for rel, old, new in edits:
        p = os.path.join(d, rel)
        try:
            s = open(p).read()
        except OSError:
            shutil.rmtree(d, ignore_errors=True)
            return None, "file %s missing" % rel
        if s.count(old) != 1:
            shutil.rmtree(d, ignore_errors=True)
            return None, "anchor text occurs %d times in %s" % (s.count(old), rel)
        open(p, "w").write(s.replace(old, new))
    return d, None


def run_one(m, tier="quick"):
    d, why = make_scratch(m["edits"])
    if d is None:
        return {"id": m["id"], "status": "skipped", "why": why}
    try:
        env = dict(os.environ)
        env["LCDB_REPO"] = d
        env["LCDB_SCRATCH_OF"] = REPO
        env["VERIF_AUDIT"] = "1"
        env["VERIF_TIER"] = tier
        res = {}
        for prop in m["props"]:
            r = subprocess.run([sys.executable, "-m", "sa.core", prop, "--tier", tier, "--no-evidence"],
                               cwd=VERIF, env=env, capture_output=True, text=True)
            rules = [l.split("rule=")[1].split()[0] for l in r.stdout.splitlines() if "violated: rule=" in l]
            res[prop] = {"rc": r.returncode, "rules": sorted(set(rules)),
                         "tail": r.stdout.strip().splitlines()[-1:] if r.returncode == 2 else []}
        return {"id": m["id"], "status": "ran", "results": res}
    finally:
        shutil.rmtree(d, ignore_errors=True)


def audit(props=None, ids=None, jobs=4, tier="quick"):
    MUT, NEU = load_table()
    out = {"mutants": [], "neutral": []}

    def want(m):
        if ids and m["id"] not in ids:
            return False
        if props and not (set(props) & set(m["props"])):
            return False
        return True
    ms = [m for m in MUT if want(m)]
    ns = [m for m in NEU if want(m)]
    with ThreadPoolExecutor(max_workers=jobs) as ex:
        rm = list(ex.map(lambda m: run_one(m, tier), ms))
        rn = list(ex.map(lambda m: run_one(m, tier), ns))
    for m, r in zip(ms, rm):
        if r["status"] == "ran":
            fired = [p for p in m["props"] if r["results"][p]["rc"] == 1]
            r["caught"] = bool(fired)
            if m.get("rule"):
                r["caught_by_expected_rule"] = any(m["rule"] in r["results"][p]["rules"] for p in m["props"])
        out["mutants"].append(r)
    for m, r in zip(ns, rn):
        if r["status"] == "ran":
            r["silent"] = all(r["results"][p]["rc"] == 0 for p in m["props"])
        out["neutral"].append(r)
    return out


if __name__ == "__main__":
    import argparse
    ap = argparse.ArgumentParser()
    ap.add_argument("--props", default="")
    ap.add_argument("--ids", default="")
    ap.add_argument("--jobs", type=int, default=4)
    a = ap.parse_args()
    sys.path.insert(0, VERIF)
    res = audit([p for p in a.props.split(",") if p], [i for i in a.ids.split(",") if i], a.jobs)
    bad = 0
    for r in res["mutants"]:
        if r["status"] != "ran":
            print("SKIP  %-40s %s" % (r["id"], r["why"]))
        elif r["caught"]:
            print("CAUGHT %-40s %s" % (r["id"], {p: v["rules"] for p, v in r["results"].items()}))
        else:
            bad += 1
            print("MISSED %-40s %s" % (r["id"], {p: (v["rc"], v["tail"]) for p, v in r["results"].items()}))
    for r in res["neutral"]:
        if r["status"] != "ran":
            print("SKIP  %-40s %s" % (r["id"], r["why"]))
        elif r["silent"]:
            print("SILENT %-40s" % r["id"])
        else:
            bad += 1
            print("NOISY  %-40s %s" % (r["id"], {p: (v["rc"], v["rules"], v["tail"]) for p, v in r["results"].items()}))
    sys.exit(1 if bad else 0)
