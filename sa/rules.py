"""Rule helpers shared by the property modules (families T1, T2, T4, T5)."""
import re

from .build import AnalysisBroken
from .paths import MIRROR, NEG, _const_implies, _num, implied, xgraph
from .program import (base_var, calls_in, const_val, fields_in, is_zero, key, show, strip_casts,
                      vars_in, walk)

BAD = "BAD"


# --------------------------------------------------------------------------
# events
# --------------------------------------------------------------------------

def is_call(e, names):
    """Event is a call (direct, or an indirect call written through one of the
    repo's wrapper macros such as ldb_iter_status) to one of `names`."""
    if e.get("e") != "call":
        return False
    if isinstance(names, str):
        names = (names,)
    if e.get("f") in names:
        return True
    for m in e.get("mac", ()):
        if m in names:
            return True
    return False


def callee_name(e):
    if "f" in e:
        return e["f"]
    for m in e.get("mac", ()):
        return m
    return "(*%s)" % key(e.get("fp"))


def arg(e, i):
    a = e.get("a", [])
    return a[i] if i < len(a) else None


def argkey(e, i):
    a = arg(e, i)
    if a is None:
        return None
    a = strip_casts(a)
    if isinstance(a, dict) and a.get("k") == "un" and a.get("op") == "&":
        return "&" + key(a["x"])
    return key(a)


def find_calls(fn, names):
    return [(b, i, e) for (b, i, e) in fn.events("call") if is_call(e, names)]


def one_call(ctx, fn, names, what=None):
    c = find_calls(fn, names)
    ctx.require(len(c) >= 1, "anchor vanished: %s no longer calls %s" % (fn.name, what or names))
    return c


def need_call(ctx, rule, instance, fn, names, what):
    """The call itself is the obligation: its absence is a violation of the
    rule (not a vanished anchor)."""
    c = find_calls(fn, names)
    if not c:
        ctx.bad(rule, instance, fn.name, fn.loc, "%s: %s no longer calls %s" % (what, fn.name, names))
    return c


def stores_to_field(fn, field, struct=None):
    """asg/inc events whose lvalue is a member named `field`."""
    out = []
    for b, i, e in fn.events():
        if e["e"] == "asg":
            l = strip_casts(e["lhs"])
        elif e["e"] == "inc":
            l = strip_casts(e["x"])
        else:
            continue
        if isinstance(l, dict) and l.get("k") == "mem" and l["f"] == field:
            if struct is None or l.get("s") == struct or _rec_eq(l.get("s"), struct):
                out.append((b, i, e))
    return out


def _rec_eq(a, b):
    n = lambda x: re.sub(r"_(s|t)$", "", x or "")
    return n(a) == n(b)


def site(fn, e):
    return "%s@%s" % (fn.name, e.get("l", fn.loc))


# --------------------------------------------------------------------------
# return classification
# --------------------------------------------------------------------------

def ret_may_be_zero(e, st):
    """May this `ret` event return 0 (LDB_OK) in path state st?"""
    x = strip_casts(e.get("x"))
    if x is None:
        return True
    c = const_val(x)
    if c is not None and not vars_in(x) and not fields_in(x):
        return c == 0
    if isinstance(x, dict) and x.get("k") == "var":
        if ("nz", x["n"]) in st:
            return False
        return True
    if isinstance(x, dict) and x.get("k") == "call" and x.get("f") in _NONZERO_HINT:
        return False
    return True


_NONZERO_HINT = {"ldb_system_error"}


def ret_may_be_nonzero(e, st):
    x = strip_casts(e.get("x"))
    if x is None:
        return True
    c = const_val(x)
    if c is not None and not vars_in(x) and not fields_in(x):
        return c != 0
    if isinstance(x, dict) and x.get("k") == "var":
        if ("z", x["n"]) in st:
            return False
        return True
    return True


# --------------------------------------------------------------------------
# atoms
# --------------------------------------------------------------------------

def CALL(name):
    return r"(?:\(\*)?[^#]*\b%s\b.*#\d+" % re.escape(name) if False else ("CALL", name)


def _pat_match(pat, s):
    if isinstance(pat, tuple) and pat[0] == "CALL":
        return re.match(r"^%s\(.*\)#\d+$" % re.escape(pat[1]), s) is not None
    if isinstance(pat, int):
        return _num(s) == pat
    if isinstance(pat, str):
        if pat.startswith("re:"):
            return re.fullmatch(pat[3:], s) is not None
        return s == pat
    if callable(pat):
        return bool(pat(s))
    return False


_IMPL = {"<": ("<", "<=", "!="), ">": (">", ">=", "!="), "==": ("==", "<=", ">="),
         "<=": ("<=",), ">=": (">=",), "!=": ("!=",)}


def holds(atoms, want):
    """Is `want` = (op, a-pattern, b-pattern) implied by one of the atoms?
    Integer patterns use interval implication (x < 3 ==> x < 8)."""
    if atoms is None:
        return True    # unreachable code satisfies every guard
    op, ap, bp = want
    for h in atoms:
        for ho, ha, hb in (h, (MIRROR[h[0]], h[2], h[1])):
            if isinstance(bp, int) and _num(hb) is not None and _pat_match(ap, ha):
                if _const_implies(ho, _num(hb), op, bp):
                    return True
                continue
            if _pat_match(ap, ha) and _pat_match(bp, hb) and op in _IMPL[ho]:
                return True
    return False


def holds_exact(atoms, want):
    """The atom itself (or its mirror image) is among the facts - no
    implication: used where a *stronger* guard also breaks the property."""
    if atoms is None:
        return True
    op, a, b = want
    for h in atoms:
        for ho, ha, hb in (h, (MIRROR[h[0]], h[2], h[1])):
            if ho == op and _pat_match(a, ha) and _pat_match(b, hb):
                return True
    return False


def holds_all(atoms, wants):
    return all(holds(atoms, w) for w in wants)


def holds_any(atoms, alternatives):
    """alternatives: list of conjunctions (lists of wanted atoms)."""
    return any(holds_all(atoms, conj) for conj in alternatives)


def fmt_atoms(atoms):
    if atoms is None:
        return "<unreachable>"
    return "{" + "; ".join("%s %s %s" % (a[1], a[0], a[2]) for a in sorted(atoms)) + "}"


def must_at(ctx, fn, b, i, **kw):
    return xgraph(ctx.P if not kw.get("P") else kw["P"], fn,
                  keep_calls=kw.get("keep_calls", ())).must_at(b, i)


def check_guard(ctx, rule, instance, fn, ev, alternatives, what, P=None, keep_calls=()):
    """T2: event ev=(b,i,e) is reachable only when one of the guard
    conjunctions holds."""
    b, i, e = ev
    g = xgraph(P or ctx.P, fn, keep_calls=keep_calls)
    atoms = g.must_at(b, i)
    ok = holds_any(atoms, alternatives)
    ctx.check(ok, rule, instance, fn.name, site(fn, e),
              "%s is dominated by its guard; facts on every path: %s" % (what, fmt_atoms(atoms)),
              "%s is reachable without its guard; facts on every path: %s" % (what, fmt_atoms(atoms)))
    return ok


# --------------------------------------------------------------------------
# path automata (T1)
# --------------------------------------------------------------------------

def run_paths(ctx, fn, q0, step, edge=None, P=None, keep_calls=(), track_paths=(), keep_vars=()):
    """Runs automaton over all feasible paths of fn.  step(q, e, st, b, i)->q.
    Returns (graph, list of (final q, example path as block ids))."""
    g = xgraph(P or ctx.P, fn, keep_calls=keep_calls, track_paths=track_paths, keep_vars=keep_vars)
    parent, finals = g.run_automaton(q0, lambda q, b, i, e, st: step(q, e, st, b, i), edge)
    out = []
    for cur, q, bid in finals:
        out.append((q, cur, bid))
    return g, parent, out


def path_lines(fn, g, parent, cur):
    bl = g.path_to(parent, cur)
    out = []
    for b in bl:
        blk = fn.blocks[b]
        if blk.ev:
            out.append(blk.ev[0].get("l", "B%d" % b))
        elif blk.term is not None:
            out.append(blk.term.get("l", "B%d" % b))
    ded = []
    for x in out:
        if not ded or ded[-1] != x:
            ded.append(x)
    return ded


def check_automaton(ctx, rule, instance, fn, q0, step, edge=None, what="", P=None, keep_calls=(),
                    track_paths=(), bad_final=None, keep_vars=()):
    """Violation iff some feasible path reaches q == BAD (or bad_final(q) at
    a normal exit)."""
    g, parent, finals = run_paths(ctx, fn, q0, step, edge, P, keep_calls, track_paths, keep_vars)
    worst = None
    n = 0
    for q, cur, bid in finals:
        n += 1
        isbad = (q == BAD) or (bad_final is not None and bid == fn.exit and bad_final(q))
        if isbad and worst is None:
            worst = cur
    if worst is not None:
        ctx.bad(rule, instance, fn.name, fn.loc, "%s: a feasible path violates it" % what,
                path=path_lines(fn, g, parent, worst))
        return False
    ctx.ok(rule, instance, fn.loc, "%s: holds on all %d path classes (%d path states)" %
           (what, n, len(g.node_list)))
    return True


DEAD = "DEAD"


def must_pass_before_success(ctx, rule, instance, fn, start, passing, what, success=ret_may_be_zero,
                             keep_calls=(), P=None, edge_pass=None, reset=None, edge_dead=None):
    """T1: on every feasible path from an event matching `start` (None =
    function entry) to a success return, an event matching `passing` occurs.
    edge_pass(literal) -> True lets a branch edge discharge the obligation
    (e.g. the false edge of `options->sync`).  reset(e) re-arms."""
    def step(q, e, st, b, i):
        if q == BAD or q == DEAD:
            return q
        if q == 0 and start is not None and start(e):
            q = 1
        elif q == 2 and reset is not None and reset(e):
            q = 1 if start is None else 0
            if start is not None and start(e):
                q = 1
        if q == 1 and passing(e):
            q = 2
        if e["e"] == "ret" and q == 1 and success(e, st):
            return BAD
        return q

    def edge(q, lit):
        if q == 1 and edge_dead is not None and lit is not None and lit[0] not in ("case", "default"):
            if edge_dead(lit):
                return DEAD       # infeasible by a separately checked idiom
        if q == 1 and edge_pass is not None and lit is not None and lit[0] not in ("case", "default"):
            if edge_pass(lit):
                return 2
        return q
    q0 = 1 if start is None else 0
    return check_automaton(ctx, rule, instance, fn, q0, step, edge, what, P, keep_calls)


def never_after(ctx, rule, instance, fn, first, then, what, keep_calls=(), P=None, until=None):
    """No feasible path has an event matching `then` after one matching
    `first` (unless an `until` event intervenes)."""
    def step(q, e, st, b, i):
        if q == BAD:
            return q
        if q == 1 and then(e):
            return BAD
        if q == 1 and until is not None and until(e):
            q = 0
        if first(e):
            q = 1
        return q
    return check_automaton(ctx, rule, instance, fn, 0, step, None, what, P, keep_calls)


def always_before(ctx, rule, instance, fn, first, then, what, keep_calls=(), P=None):
    """Every event matching `then` is preceded on every path by `first`."""
    def step(q, e, st, b, i):
        if q == BAD:
            return q
        if first(e):
            return 1
        if q == 0 and then(e):
            return BAD
        return q
    return check_automaton(ctx, rule, instance, fn, 0, step, None, what, P, keep_calls)


# --------------------------------------------------------------------------
# sequences of events along plain CFG paths (T6 helper)
# --------------------------------------------------------------------------

def sequences_from(fn, b0, i0, item, stop_event=None, stop_blocks=(), limit=64):
    """Set of tuples: the kinds item(e) met along every CFG path starting just
    after event (b0, i0) until a stop event / stop block / function exit.
    Paths ending in a `return <non-zero-const or 0>` are reported with a final
    marker ('ret', value-or-None)."""
    memo = {}
    onstack = set()

    def go(b, i):
        k = (b, i)
        if k in memo:
            return memo[k]
        if k in onstack:
            return {()}     # back edge: the loop body was already accounted for
        onstack.add(k)
        blk = fn.blocks[b]
        res = None
        evs = blk.ev
        j = i
        prefix = []
        ended = False
        while j < len(evs):
            e = evs[j]
            if stop_event is not None and stop_event(e) and not (b == b0 and j < i0 + 1 and False):
                res = {tuple(prefix) + (("stop",),)}
                ended = True
                break
            if e["e"] == "ret":
                res = {tuple(prefix) + (("ret", const_val(e.get("x"))),)}
                ended = True
                break
            kind = item(e)
            if kind is not None:
                prefix.append(kind)
            j += 1
        if not ended:
            res = set()
            succs = [s for s in blk.succ if s is not None]
            if not succs or blk.noret:
                res.add(tuple(prefix) + (("end",),))
            for s in succs:
                if s in stop_blocks:
                    res.add(tuple(prefix) + (("stop",),))
                    continue
                for tail in go(s, 0):
                    res.add(tuple(prefix) + tail)
                    if len(res) > limit:
                        raise AnalysisBroken("too many distinct event sequences in %s" % fn.name)
        onstack.discard(k)
        memo[k] = res
        return res
    return go(b0, i0 + 1)


def ordered_before_success(ctx, rule, instance, fn, seq, what, start=None, success=ret_may_be_zero,
                           keep_calls=(), P=None):
    """T1: every feasible path from `start` (None = entry) to a success return
    has passed events matching seq[0], seq[1], ... in this order (other
    events may lie between; an earlier element seen again does not reset)."""
    n = len(seq)

    def step(q, e, st, b, i):
        if q == BAD:
            return q
        if q == -1:
            if start(e):
                q = 0
            else:
                return q
        if q < n and seq[q](e):
            q += 1
        if e["e"] == "ret" and 0 <= q < n and success(e, st):
            return BAD
        return q
    q0 = -1 if start is not None else 0
    return check_automaton(ctx, rule, instance, fn, q0, step, None, what, P, keep_calls)


def call_ok_dominates(ctx, rule, instance, fn, ev, callee, what, P=None):
    """The event is reachable only on paths where the last execution of a call
    to `callee` returned 0 (LDB_OK), i.e. the status test really refers to
    that call and not to a later overwrite."""
    b, i, e = ev
    g = xgraph(P or ctx.P, fn, keep_calls=(callee,))
    ids = {x["id"] for bb, ii, x in fn.events("call") if is_call(x, callee)}
    ctx.require(ids, "anchor vanished: %s no longer calls %s" % (fn.name, callee))
    ok = True
    seen = 0
    for n in g.nodes_of_block(b):
        st = g.state_before(n, i)
        seen += 1
        if not any(("cz", cid) in st for cid in ids):
            ok = False
    if seen == 0:
        ok = True
    ctx.check(ok, rule, instance, fn.name, site(fn, e),
              "%s only after %s returned LDB_OK (%d path states)" % (what, callee, seen),
              "%s is reachable although %s did not (provably) return LDB_OK" % (what, callee))
    return ok


def not_under_edges(ctx, rule, instance, fn, edge_seq, target, reset, what, P=None):
    """No feasible path takes branch edges matching edge_seq[0..] in order
    (each a predicate on (cond tree, polarity)) and then reaches an event
    matching `target` before an event matching `reset`."""
    n = len(edge_seq)

    def step(q, e, st, b, i):
        if q == BAD:
            return q
        if q == n and target(e):
            return BAD
        if reset is not None and reset(e):
            return 0
        return q

    def edge(q, lit):
        if q == BAD or lit is None or lit[0] in ("case", "default"):
            return q
        if q < n and edge_seq[q](lit[0], lit[1]):
            return q + 1
        return q
    return check_automaton(ctx, rule, instance, fn, 0, step, edge, what, P)


def truth_of(cond, pol, wanted_key):
    """If cond (with polarity) is `wanted_key` possibly under negations,
    returns the truth value it gives wanted_key on this edge, else None."""
    c = strip_casts(cond)
    while isinstance(c, dict) and c.get("k") == "un" and c.get("op") == "!":
        pol = not pol
        c = strip_casts(c["x"])
    if isinstance(c, dict) and c.get("k") == "bin" and c.get("op") in ("!=", "==") :
        l, r = strip_casts(c["l"]), strip_casts(c["r"])
        if is_zero(r) and key(l) == wanted_key:
            return pol if c["op"] == "!=" else (not pol)
        if is_zero(l) and key(r) == wanted_key:
            return pol if c["op"] == "!=" else (not pol)
        return None
    if key(c) == wanted_key:
        return pol
    return None


def stores_of_field_in_program(P, struct, field):
    """All (function, b, i, event) storing to struct.field anywhere."""
    out = []
    for f in P.all_functions:
        for b, i, e in f.events():
            if e["e"] == "asg":
                l = strip_casts(e["lhs"])
            elif e["e"] == "inc":
                l = strip_casts(e["x"])
            else:
                continue
            if isinstance(l, dict) and l.get("k") == "mem" and l["f"] == field and _rec_eq(l.get("s"), struct):
                out.append((f, b, i, e))
    return out


def must_cross_edge_before(ctx, rule, instance, fn, ok_edge, target, what, reset=None, P=None):
    """T2 (disjunctive form): every feasible path reaching an event matching
    `target` has crossed, since the last `reset` event (or entry), a branch
    edge accepted by ok_edge(cond, polarity).  Unlike a must-literal set this
    accepts `a || b` guards, where no single literal holds on all paths."""
    def step(q, e, st, b, i):
        if q == BAD:
            return q
        if target(e) and q == 0:
            return BAD
        if reset is not None and reset(e):
            return 0
        return q

    def edge(q, lit):
        if q == BAD or lit is None or lit[0] in ("case", "default"):
            return q
        if ok_edge(lit[0], lit[1]):
            return 1
        return q
    return check_automaton(ctx, rule, instance, fn, 0, step, edge, what, P)


def cmp_edge(cond, pol, lhs_key, op, value):
    """Does the branch edge (cond, pol) establish `lhs_key op value` (integer
    constant), by interval implication?"""
    from .paths import norm_literal
    for a in norm_literal(cond, pol):
        for ho, ha, hb in (a, (MIRROR[a[0]], a[2], a[1])):
            if ha == lhs_key and _num(hb) is not None and _const_implies(ho, _num(hb), op, value):
                return True
    return False


def iteration_equiv(ctx, rule, instance, fn, reset, target, flag_edges, exec_ok, skip_ok, what, P=None):
    """Equivalence of a guard (both directions), for one loop iteration that
    starts at an event matching `reset`:
      - the target event executes only with exec_ok(flags),
      - an iteration that ends (next reset / function exit) without the
        target has skip_ok(flags),
    where flags = names of flag_edges {name: pred(cond, pol)} crossed since
    the reset.  Edges are matched by implication over identical operands."""
    names = sorted(flag_edges)

    def step(q, e, st, b, i):
        if q == BAD:
            return q
        started, done, flags = q
        if reset(e):
            if started and not done and not skip_ok(flags):
                return BAD
            return (True, False, frozenset())
        if started and target(e):
            if not exec_ok(flags):
                return BAD
            return (True, True, flags)
        if e["e"] == "ret" and started and not done and not skip_ok(flags):
            return BAD
        return q

    def edge(q, lit):
        if q == BAD or lit is None or lit[0] in ("case", "default"):
            if q != BAD and lit is not None and lit[0] == "case":
                started, done, flags = q
                add = {n for n in names if flag_edges[n](("case", lit[1], lit[2]), True)}
                return (started, done, frozenset(flags | add))
            return q
        started, done, flags = q
        add = {n for n in names if flag_edges[n](lit[0], lit[1])}
        if add:
            return (started, done, frozenset(flags | add))
        return q
    return check_automaton(ctx, rule, instance, fn, (False, False, frozenset()), step, edge, what, P)


def rel_edge(cond, pol, op, a, b):
    """Does the edge establish `a op b` (operands by key; ints allowed)?"""
    from .paths import norm_literal, atom_implies, ckey
    if isinstance(cond, tuple) and cond[0] == "case":
        atoms = [("==", ckey(cond[1]), ckey(cond[2]))]
    else:
        atoms = norm_literal(cond, pol)
    want = (op, str(a), str(b))
    return any(atom_implies(h, want) for h in atoms)


# --------------------------------------------------------------------------
# T8: ordering analysis of comparator-like expressions
# --------------------------------------------------------------------------

class Unsupported(Exception):
    pass


class Narrowing(Unsupported):
    """The ordering is derived from a difference of operands wider than int."""


_TIES = []      # pairs of operand keys taken as equal while a comparator is walked (lexicographic orders)


def eval_sign(t, a_key, b_key, ordering):
    """Abstractly evaluates integer expression tree t where the only unknowns
    are comparisons between operands keyed a_key and b_key; `ordering` is
    '<', '=' or '>' (relation a ? b).  Returns an int.  Anything else raises
    Unsupported (-> analysis broken, never a guess)."""
    t = strip_casts(t)
    if not isinstance(t, dict):
        raise Unsupported("non-tree")
    c = const_val(t)
    k = t.get("k")
    if k == "int" and c is not None:
        return c
    if k == "cond":
        return eval_sign(t["a"] if eval_sign(t["c"], a_key, b_key, ordering) else t["b"], a_key, b_key, ordering)
    if k == "un" and t["op"] == "-":
        return -eval_sign(t["x"], a_key, b_key, ordering)
    if k == "un" and t["op"] == "+":
        return eval_sign(t["x"], a_key, b_key, ordering)
    if k == "un" and t["op"] == "!":
        return 0 if eval_sign(t["x"], a_key, b_key, ordering) else 1
    if k == "bin":
        op = t["op"]
        if op in ("<", ">", "<=", ">=", "==", "!="):
            lk, rk = key(t["l"]), key(t["r"])
            if lk != rk and any({lk, rk} == set(p) for p in _TIES):
                return int(op in ("<=", ">=", "=="))
            if {lk, rk} == {a_key, b_key} and lk != rk:
                rel = ordering if lk == a_key else {"<": ">", ">": "<", "=": "="}[ordering]
                return int({"<": rel == "<", ">": rel == ">", "<=": rel in "<=", ">=": rel in ">=",
                            "==": rel == "=", "!=": rel != "="}[op])
            l = eval_sign(t["l"], a_key, b_key, ordering)
            r = eval_sign(t["r"], a_key, b_key, ordering)
            return int({"<": l < r, ">": l > r, "<=": l <= r, ">=": l >= r, "==": l == r, "!=": l != r}[op])
        if op == "-":
            lt_, rt_ = strip_casts(t["l"]), strip_casts(t["r"])
            lk, rk = key(lt_), key(rt_)
            if lk != rk and any({lk, rk} == set(p) for p in _TIES):
                return 0
            if {lk, rk} == {a_key, b_key} and lk != rk:
                ty = {str(lt_.get("t")), str(rt_.get("t"))} if isinstance(lt_, dict) and isinstance(rt_, dict) else {None}
                if not ty <= {"int", "short", "signed char", "char"}:
                    raise Narrowing("the difference %s of operands of type %s does not order them" % (show(t), sorted(map(str, ty))))
                rel = ordering if lk == a_key else {"<": ">", ">": "<", "=": "="}[ordering]
                return {"<": -1, "=": 0, ">": 1}[rel]
        l = eval_sign(t["l"], a_key, b_key, ordering)
        r = eval_sign(t["r"], a_key, b_key, ordering)
        if op == "+":
            return l + r
        if op == "-":
            return l - r
        if op == "&&":
            return int(bool(l) and bool(r))
        if op == "||":
            return int(bool(l) or bool(r))
    if c is not None and not vars_in(t) and not fields_in(t):
        return c
    raise Unsupported("unsupported construct %s in comparator expression" % show(t))


def sign_triple(t, a_key, b_key):
    sg = lambda v: (v > 0) - (v < 0)
    return tuple(sg(eval_sign(t, a_key, b_key, o)) for o in ("<", "=", ">"))


def dnf(t, pol=True):
    """Disjunctive normal form of a condition tree as a frozenset of
    frozensets of relational atoms (op, a, b); comparisons canonicalised so
    that mirrored forms compare equal."""
    from .paths import norm_literal
    t = strip_casts(t)
    if isinstance(t, dict) and t.get("k") == "un" and t.get("op") == "!":
        return dnf(t["x"], not pol)
    if isinstance(t, dict) and t.get("k") == "bin" and t["op"] in ("&&", "||"):
        conj = (t["op"] == "&&") == pol
        l, r = dnf(t["l"], pol), dnf(t["r"], pol)
        if conj:
            return frozenset(a | b for a in l for b in r)
        return frozenset(l | r)
    atoms = norm_literal(t, pol)
    return frozenset([frozenset(_canon(a) for a in atoms)])


def _canon(a):
    op, x, y = a
    if (y, x) < (x, y) and _num(y) is None or (_num(x) is not None and _num(y) is None):
        return (MIRROR[op], y, x)
    return a


def cfg_sign_triple(fn, a_key, b_key, tie_vars=(), ties=()):
    _TIES[:] = list(ties)
    try:
        return _cfg_sign_triple(fn, a_key, b_key, tie_vars)
    finally:
        _TIES[:] = []


def _cfg_sign_triple(fn, a_key, b_key, tie_vars=()):
    """T8 for comparator *functions*: walks the CFG under each ordering of the
    two operands.  Branches that compare the operands are decided by the
    ordering; locals hold integer constants (a local assigned from a call or
    anything else unknown is taken as 0 if listed in tie_vars: "the primary
    comparison tied").  Any other construct raises Unsupported."""
    def run(ordering):
        results = set()
        seen = set()
        stack = [(fn.entry, ())]
        steps = 0
        while stack:
            bid, envt = stack.pop()
            steps += 1
            if steps > 2000:
                raise Unsupported("comparator CFG walk does not terminate (loop?) in %s" % fn.name)
            if (bid, envt) in seen:
                continue
            seen.add((bid, envt))
            env = dict(envt)
            blk = fn.blocks[bid]
            ended = False
            for e in blk.ev:
                k = e["e"]
                if k in ("asg", "decl"):
                    if k == "asg":
                        l = strip_casts(e["lhs"])
                        if not (isinstance(l, dict) and l.get("k") == "var"):
                            continue
                        name, rhs = l["n"], e["rhs"]
                        if e["op"] != "=":
                            raise Unsupported("compound assignment to %s" % name)
                    else:
                        if "init" not in e:
                            continue
                        name, rhs = e["n"], e["init"]
                    try:
                        env[name] = _ev(rhs, env, a_key, b_key, ordering)
                    except Unsupported:
                        if name in tie_vars and calls_in(rhs):
                            env[name] = 0      # the primary comparison (a call) is assumed to tie
                        elif name in tie_vars:
                            raise
                        else:
                            env.pop(name, None)
                elif k == "ret":
                    if e.get("x") is None:
                        raise Unsupported("void return")
                    results.add(_ev(e["x"], env, a_key, b_key, ordering))
                    ended = True
                    break
            if ended or blk.noret:
                continue
            lits = fn.edge_literals(bid)
            if len(lits) == 1 or all(l is None for s, l in lits):
                for s, l in lits:
                    stack.append((s, tuple(sorted(env.items()))))
                continue
            cond = lits[0][1][0] if lits[0][1] and lits[0][1][0] not in ("case", "default") else None
            if cond is None:
                raise Unsupported("switch in comparator %s" % fn.name)
            try:
                v = _ev(cond, env, a_key, b_key, ordering)
            except Unsupported:
                v = None      # not about the operands: both outcomes are walked and must agree
            for s, l in lits:
                if l is not None and (v is None or bool(v) == l[1]):
                    stack.append((s, tuple(sorted(env.items()))))
        if len(results) != 1:
            raise Unsupported("comparator %s returns %s under %s" % (fn.name, sorted(results), ordering))
        return results.pop()
    sg = lambda v: (v > 0) - (v < 0)
    return tuple(sg(run(o)) for o in ("<", "=", ">"))


def _ev(t, env, a_key, b_key, ordering):
    t = strip_casts(t)
    if isinstance(t, dict) and t.get("k") == "var" and t["n"] in env and key(t) not in (a_key, b_key):
        return env[t["n"]]
    if isinstance(t, dict) and t.get("k") in ("bin", "un", "cond"):
        # substitute known locals, then evaluate
        def sub(n):
            n2 = strip_casts(n)
            if isinstance(n2, dict) and n2.get("k") == "var" and n2["n"] in env and key(n2) not in (a_key, b_key):
                return {"k": "int", "v": str(env[n2["n"]])}
            if isinstance(n2, dict):
                o = dict(n2)
                o.pop("cv", None)
                for kk in ("l", "r", "x", "c", "a", "b"):
                    if isinstance(n2.get(kk), dict):
                        o[kk] = sub(n2[kk])
                return o
            return n2
        return eval_sign(sub(t), a_key, b_key, ordering)
    return eval_sign(t, a_key, b_key, ordering)


def returned_after(ctx, fn, arm_event=None, arm_edge=None, P=None, assume=None):
    """Constant propagation of plain locals along every feasible path: the set
    of values returned on paths that crossed an arming event / edge (arm_event
    (e) / arm_edge(literal) -> bool; both None = armed from entry).  A value
    is an int constant, or "?" when the returned expression is not a constant
    on that path.  Independent of whether the function returns the constant
    directly or through `rc = K; goto fail; ... return rc;`."""
    armed0 = arm_event is None and arm_edge is None

    def step(q, e, st, b, i):
        armed, env, out = q
        k = e["e"]
        if k == "asg" or k == "decl":
            lhs = strip_casts(e["lhs"]) if k == "asg" else {"k": "var", "n": e["n"]}
            if isinstance(lhs, dict) and lhs.get("k") == "var":
                d = dict(env)
                rhs = e.get("rhs") if k == "asg" else e.get("init")
                v = const_val(rhs) if rhs is not None and (k == "decl" or e.get("op") == "=") else None
                if v is None and rhs is not None and (k == "decl" or e.get("op") == "="):
                    r = strip_casts(rhs)
                    if isinstance(r, dict) and r.get("k") == "var" and r["n"] in d:
                        v = d[r["n"]]
                if v is None:
                    d.pop(lhs["n"], None)
                else:
                    d[lhs["n"]] = v
                env = frozenset(d.items())
        elif k == "inc":
            x = strip_casts(e["x"])
            if isinstance(x, dict) and x.get("k") == "var":
                d = dict(env)
                d.pop(x["n"], None)
                env = frozenset(d.items())
        elif k == "call":
            d = None
            for a in e.get("a", []):
                a = strip_casts(a)
                if isinstance(a, dict) and a.get("k") == "un" and a.get("op") == "&":
                    x = strip_casts(a["x"])
                    if isinstance(x, dict) and x.get("k") == "var":
                        d = d if d is not None else dict(env)
                        d.pop(x["n"], None)
            if d is not None:
                env = frozenset(d.items())
        if not armed and arm_event is not None and arm_event(e):
            armed = True
        if k == "ret" and armed:
            x = e.get("x")
            v = const_val(x) if x is not None else None
            if v is None and x is not None:
                r = strip_casts(x)
                if isinstance(r, dict) and r.get("k") == "var":
                    v = dict(env).get(r["n"])
            out = out | frozenset([v if v is not None else "?"])
        return (armed, env, out)

    case_vals = set()
    if assume is not None:
        for blk in fn.blocks.values():
            if blk.term is not None and blk.term.get("k") == "SwitchStmt" and key(blk.term.get("cond")) == assume[0]:
                for s2 in blk.succ:
                    if s2 is not None and "case" in (fn.blocks[s2].label or {}):
                        case_vals.add(const_val(fn.blocks[s2].label["case"]))

    def edge(q, lit):
        if q == DEAD:
            return q
        armed, env, out = q
        if assume is not None and lit is not None:
            if lit[0] == "default":
                if key(lit[1]) == assume[0] and assume[1] in case_vals:
                    return DEAD
            elif not _lit_feasible_under(fn, lit, assume[0], assume[1]):
                return DEAD
        if not armed and arm_edge is not None and lit is not None and arm_edge(lit):
            return (True, env, out)
        return q
    step0 = step

    def step(q, e, st, b, i):
        return q if q == DEAD else step0(q, e, st, b, i)
    g, parent, finals = run_paths(ctx, fn, (armed0, frozenset(), frozenset()), step, edge, P)
    vals = set()
    for q, cur, bid in finals:
        if q != DEAD:
            vals |= set(q[2])
    return vals


def incr_of(e):
    """(lvalue tree, +1 / -1) if the event steps an lvalue by one in any
    spelling (x++, ++x, x += 1, x = x + 1, and the decrements), else None."""
    k = e.get("e")
    if k == "inc":
        return e["x"], (1 if e.get("op") == "++" else -1)
    if k == "asg":
        op, rhs = e.get("op"), e.get("rhs")
        if op in ("+=", "-=") and const_val(rhs) == 1:
            return e["lhs"], (1 if op == "+=" else -1)
        if op == "=":
            r = strip_casts(rhs)
            if isinstance(r, dict) and r.get("k") == "bin" and r.get("op") in ("+", "-"):
                lk = key(e["lhs"])
                if key(r["l"]) == lk and const_val(r["r"]) == 1:
                    return e["lhs"], (1 if r["op"] == "+" else -1)
                if r["op"] == "+" and key(r["r"]) == lk and const_val(r["l"]) == 1:
                    return e["lhs"], 1
    return None


def is_incr(e, lv_key=None, by=None):
    r = incr_of(e)
    if r is None:
        return False
    return (lv_key is None or key(r[0]) == lv_key) and (by is None or r[1] == by)


def incr_events(fn, lv_key=None, by=None):
    """[(block, index, event as an inc event)] for every step-by-one of lv_key."""
    out = []
    for b, i, e in fn.events():
        r = incr_of(e)
        if r is not None and (lv_key is None or key(r[0]) == lv_key) and (by is None or r[1] == by):
            out.append((b, i, e if e["e"] == "inc" else {"e": "inc", "x": r[0], "op": "++" if r[1] > 0 else "--", "l": e["l"], "_of": e}))
    return out


def value_source(fn, tree):
    """Key of an expression, seen through one level of single-definition
    temporaries: a plain local that is assigned exactly once in the function
    (`t = E` or `T t = E`) is replaced by the key of E.  Lets a rule name the
    value that reaches a site whether or not the code names it first."""
    t = strip_casts(tree)
    if isinstance(t, dict) and t.get("k") == "var" and t.get("kind") == "local":
        defs = []
        for b, i, e in fn.events():
            if e["e"] == "asg" and key(e["lhs"]) == t["n"]:
                defs.append(e["rhs"] if e["op"] == "=" else None)
            elif e["e"] == "decl" and e["n"] == t["n"] and "init" in e:
                defs.append(e["init"])
            elif e["e"] == "inc" and key(e["x"]) == t["n"]:
                defs.append(None)
        if len(defs) == 1 and defs[0] is not None:
            return key(defs[0])
    return key(tree)


def _lit_feasible_under(fn, lit, akey, aval, src_block=None):
    """Can the branch literal hold when expression `akey` has the integer value
    aval?  Unknown shapes are feasible (over-approximation)."""
    from .paths import norm_literal
    if lit is None:
        return True
    if lit[0] == "case":
        if key(lit[1]) != akey:
            return True
        return const_val(lit[2]) == aval
    if lit[0] == "default":
        if key(lit[1]) != akey or src_block is None:
            return True
        vals = set()
        for s in src_block.succ:
            if s is not None:
                lab = fn.blocks[s].label or {}
                if "case" in lab:
                    vals.add(const_val(lab["case"]))
        return aval not in vals
    try:
        atoms = norm_literal(lit[0], lit[1])
    except Exception:
        return True
    for op, a, b in atoms:
        x = y = None
        if a == akey and _num(b) is not None:
            x, y = aval, _num(b)
        elif b == akey and _num(a) is not None:
            x, y = _num(a), aval
        else:
            continue
        ok = {"==": x == y, "!=": x != y, "<": x < y, "<=": x <= y, ">": x > y, ">=": x >= y}.get(op, True)
        if not ok:
            return False
    return True


def assigned_under(fn, var, akey, aval, use):
    """The definitions of plain local `var` that can reach an event/terminator
    matching use(block, kind, tree) along paths that are feasible when `akey`
    evaluates to aval (per iteration: facts are not carried across a
    re-declaration of var).  Returns a set of rhs trees (by id) as a list of
    events; the declaration's initialiser counts as a definition.  Works the
    same for `switch (akey)` and for an if/else-if chain on akey."""
    out = {}
    seen = set()
    st = [(fn.entry, None)]
    while st:
        bid, last = st.pop()
        if (bid, id(last)) in seen:
            continue
        seen.add((bid, id(last)))
        blk = fn.blocks[bid]
        for e in blk.ev:
            if e["e"] == "decl" and e["n"] == var:
                last = e
            elif e["e"] == "asg" and key(e["lhs"]) == var:
                last = e
            elif e["e"] == "inc" and key(e["x"]) == var:
                last = e
        if blk.term is not None and "cond" in blk.term and use(blk, blk.term.get("cond")) and last is not None:
            out[id(last)] = last
        for s, lit in fn.edge_literals(bid):
            if _lit_feasible_under(fn, lit, akey, aval, blk):
                st.append((s, last))
    return list(out.values())


def eval_tree(t, val):
    """Three-valued evaluation of an expression tree: val(subtree) -> int or
    None supplies the assumed values of calls / variables / fields; constants,
    comparisons, !, && and || are interpreted.  Returns an int or None."""
    t = strip_casts(t)
    if not isinstance(t, dict):
        return None
    c = const_val(t)
    if c is not None:
        return c
    v = val(t)
    if v is not None:
        return v
    k = t.get("k")
    if k == "call" and t.get("f") == "__builtin_expect":
        return eval_tree(t["a"][0], val)
    if k == "un":
        x = eval_tree(t.get("x"), val)
        if t.get("op") == "!":
            return None if x is None else int(not x)
        if t.get("op") == "-":
            return None if x is None else -x
        return None
    if k == "bin":
        op = t.get("op")
        if op in ("&&", "||"):
            l, r = eval_tree(t["l"], val), eval_tree(t["r"], val)
            if op == "&&":
                if l == 0 or r == 0:
                    return 0
                return 1 if (l is not None and r is not None) else None
            if (l is not None and l != 0) or (r is not None and r != 0):
                return 1
            return 0 if (l == 0 and r == 0) else None
        l, r = eval_tree(t["l"], val), eval_tree(t["r"], val)
        if l is None or r is None:
            return None
        try:
            return {"==": int(l == r), "!=": int(l != r), "<": int(l < r), "<=": int(l <= r), ">": int(l > r),
                    ">=": int(l >= r), "+": l + r, "-": l - r}.get(op)
        except Exception:
            return None
    return None


def sequences_under(fn, item, val, start=None, stop=None, limit=4000):
    """All sequences of item(e) tokens along CFG paths that are feasible under
    the assumption valuation `val` (see eval_tree), from the function entry
    (or just after the first event matching start) to the exit (or an event
    matching stop).  A path that comes back to a block it already visited ends
    with the token "<loop>".  Branches whose condition does not evaluate are
    followed both ways."""
    out = set()
    if start is None:
        init = [(fn.entry, 0)]
    else:
        init = [(b, i + 1) for (b, i, e) in fn.events() if start(e)][:1]
    st = [(b, i, (), frozenset()) for b, i in init]
    n = 0
    while st:
        b, i, seq, seen = st.pop()
        n += 1
        if n > limit:
            raise Unsupported("too many paths in %s" % fn.name)
        blk = fn.blocks[b]
        ended = False
        seq = list(seq)
        for e in blk.ev[i:]:
            if stop is not None and stop(e):
                ended = True
                break
            tkn = item(e)
            if tkn is not None:
                seq.append(tkn)
            if e["e"] == "ret":
                ended = True
                break
        if blk.noret and not ended:
            continue            # the path ends in a call that does not return (failed assertion, abort): not a completion
        if ended or b == fn.exit:
            out.add(tuple(seq))
            continue
        nxt = []
        for s, lit in fn.edge_literals(b):
            if lit is not None and lit[0] not in ("case", "default"):
                tv = eval_tree(lit[0], val)
                if tv is not None and bool(tv) != bool(lit[1]):
                    continue
            elif lit is not None and lit[0] == "case":
                tv = eval_tree(lit[1], val)
                if tv is not None and const_val(lit[2]) != tv:
                    continue
            nxt.append(s)
        if not nxt:
            out.add(tuple(seq))
        for s in nxt:
            if s in seen or s == b:
                out.add(tuple(seq) + ("<loop>",))
            else:
                st.append((s, 0, tuple(seq), seen | {b}))
    return out
