"""Compile database and fact extraction for /repo's current working tree.

Nothing here decides a property.  It (re)creates a compile database with the
project's own CMake build description, runs tools/lcdbfacts over every unit of
the library target and caches the result keyed by the content of the tree.
"""
import hashlib
import json
import os
import shlex
import shutil
import subprocess
import sys
import time
from concurrent.futures import ThreadPoolExecutor

VERIF = os.path.dirname(os.path.dirname(os.path.abspath(__file__)))
REPO = os.environ.get("LCDB_REPO", "/repo")
WORK = os.path.join(VERIF, ".work")
EXTRACTOR = os.path.join(WORK, "bin", "lcdbfacts")
EXTRACTOR_SRC = os.path.join(VERIF, "tools", "lcdbfacts.cc")
TARGET = "lcdb_static"


class AnalysisBroken(Exception):
    """The analysis itself cannot run (exit code 2): never a verdict."""


def _sha(paths_or_bytes):
    h = hashlib.sha256()
    for p in paths_or_bytes:
        if isinstance(p, bytes):
            h.update(p)
        else:
            h.update(p.encode())
            try:
                with open(p, "rb") as f:
                    h.update(f.read())
            except OSError:
                h.update(b"<missing>")
    return h.hexdigest()


def _repo_files(subdirs, exts, repo=None):
    out = []
    for sd in subdirs:
        root = os.path.join(repo or REPO, sd)
        for dp, dn, fn in os.walk(root):
            dn.sort()
            for f in sorted(fn):
                if f.endswith(exts):
                    out.append(os.path.join(dp, f))
    return out


class _Lock(object):
    """Cross-process lock (several checks / audit jobs may start at once on a fresh .work)."""
    def __init__(self, name):
        os.makedirs(WORK, exist_ok=True)
        self.path = os.path.join(WORK, name + ".lock")

    def __enter__(self):
        import fcntl
        self.f = open(self.path, "w")
        fcntl.flock(self.f, fcntl.LOCK_EX)
        return self

    def __exit__(self, *a):
        import fcntl
        fcntl.flock(self.f, fcntl.LOCK_UN)
        self.f.close()


def build_extractor(force=False):
    with _Lock("extractor"):
        return _build_extractor(force)


def _build_extractor(force=False):
    os.makedirs(os.path.dirname(EXTRACTOR), exist_ok=True)
    stamp = EXTRACTOR + ".sha"
    want = _sha([EXTRACTOR_SRC])
    if not force and os.path.exists(EXTRACTOR) and os.path.exists(stamp):
        if open(stamp).read().strip() == want:
            return EXTRACTOR
    cxxflags = subprocess.check_output(["llvm-config-14", "--cxxflags"], text=True).split()
    cmd = ["clang++"] + cxxflags + ["-fno-rtti", "-O1", EXTRACTOR_SRC, "-o", EXTRACTOR,
                                    "/usr/lib/llvm-14/lib/libclang-cpp.so.14",
                                    "/usr/lib/llvm-14/lib/libLLVM-14.so"]
    r = subprocess.run(cmd, capture_output=True, text=True)
    if r.returncode != 0:
        raise AnalysisBroken("cannot build extractor: " + r.stderr[-2000:])
    with open(stamp, "w") as f:
        f.write(want)
    return EXTRACTOR


SCRATCH_OF = os.environ.get("LCDB_SCRATCH_OF")   # scratch copy of this tree: reuse its build description


def compdb():
    """Units of the library target with the project's real flags."""
    if SCRATCH_OF:
        return _compdb_scratch()
    return _compdb(REPO, os.path.join(WORK, "cfg"))


def _compdb_scratch():
    """REPO is a scratch copy (src/ + include/ only) of SCRATCH_OF: take the
    unit list and flags from the original's build description and re-point
    the paths.  A unit added by the mutation itself would need a real
    configure - scratch copies never add units."""
    units = _compdb(SCRATCH_OF, os.path.join(WORK, "cfg"))
    out = []
    for u in units:
        src = u["src"].replace(SCRATCH_OF.rstrip("/") + "/", REPO.rstrip("/") + "/", 1)
        flags = [a.replace(SCRATCH_OF.rstrip("/") + "/", REPO.rstrip("/") + "/") for a in u["flags"]]
        out.append({"src": src, "flags": flags})
    return out


def _compdb(REPO, cfg):
    with _Lock("cfg"):
        return _compdb_locked(REPO, cfg)


def _compdb_locked(REPO, cfg):
    cm = [os.path.join(REPO, "CMakeLists.txt")] + _repo_files(["cmake"], (".cmake", ".txt", ".in"), REPO)
    key = _sha(cm)
    stamp = os.path.join(cfg, ".verif-key")
    fresh = (os.path.exists(os.path.join(cfg, "build.ninja")) and os.path.exists(stamp)
             and open(stamp).read().strip() == key)
    if not fresh:
        shutil.rmtree(cfg, ignore_errors=True)
        os.makedirs(cfg, exist_ok=True)
        r = subprocess.run(["cmake", "-G", "Ninja", "-S", REPO, "-B", cfg,
                            "-DCMAKE_BUILD_TYPE=RelWithDebInfo", "-DCMAKE_C_FLAGS=-Wno-error"],
                           capture_output=True, text=True)
        if r.returncode != 0:
            raise AnalysisBroken("cmake configure failed: " + (r.stdout + r.stderr)[-2000:])
        with open(stamp, "w") as f:
            f.write(key)
    r = subprocess.run(["ninja", "-C", cfg, "-t", "compdb"], capture_output=True, text=True)
    if r.returncode != 0:
        raise AnalysisBroken("ninja -t compdb failed: " + r.stderr[-2000:])
    db = json.loads(r.stdout)
    units = []
    seen = set()
    for e in db:
        if TARGET + ".dir" not in e.get("output", "") or not e.get("command"):
            continue
        src = os.path.normpath(os.path.join(e["directory"], e["file"]))
        if src in seen:
            continue
        seen.add(src)
        args = shlex.split(e["command"])[1:]
        flags = []
        skip = 0
        for a in args:
            if skip:
                skip -= 1
                continue
            if a in ("-MT", "-MF", "-o"):
                skip = 1
                continue
            if a in ("-MD", "-c", "-Wcast-align=strict") or a == e["file"] or a == src:
                continue
            flags.append(a)
        units.append({"src": src, "flags": flags})
    if len(units) < 40:
        raise AnalysisBroken("compile database lists only %d library units" % len(units))
    return units


CONFIGS = {
    # the configuration the shipped build (and the test-suite) uses
    "real": [],
    # asserts visible, env fault hooks compiled in
    "debug": ["-UNDEBUG"],
    # pread/fdatasync variants of the POSIX env
    "pread": ["-DLDB_HAVE_PREAD", "-DLDB_HAVE_FDATASYNC"],
}


def tree_key(units, config):
    files = _repo_files(["src", "include"], (".c", ".h"))
    flagblob = json.dumps([[u["src"], u["flags"]] for u in units] + [CONFIGS[config]]).encode()
    return _sha(files + [flagblob, _sha([EXTRACTOR_SRC]).encode()])[:24]


def _resource_dir():
    return subprocess.check_output(["clang", "-print-resource-dir"], text=True).strip()


def extract(config="real"):
    """Returns (list of per-unit fact dicts, info dict)."""
    t0 = time.time()
    build_extractor()
    units = compdb()
    key = tree_key(units, config)
    outdir = os.path.join(WORK, "facts", key + "-" + config)
    done = os.path.join(outdir, ".done")
    with _Lock("facts-" + key + "-" + config):
        cached = _extract_locked(units, config, outdir, done)
    facts = []
    for u in units:
        name = os.path.relpath(u["src"], REPO).replace("/", "__") + ".json"
        with open(os.path.join(outdir, name)) as f:
            facts.append(json.load(f))
    info = {"units": len(units), "config": config, "tree_key": key, "cached": cached,
            "flags": units[0]["flags"] + CONFIGS[config], "extract_s": round(time.time() - t0, 2)}
    return facts, info


def _extract_locked(units, config, outdir, done):
    cached = os.path.exists(done)
    if not cached:
        shutil.rmtree(outdir, ignore_errors=True)
        os.makedirs(outdir, exist_ok=True)
        res = _resource_dir()

        def run(u):
            name = os.path.relpath(u["src"], REPO).replace("/", "__") + ".json"
            out = os.path.join(outdir, name)
            cmd = [EXTRACTOR, REPO, out, u["src"], "--"] + u["flags"] + CONFIGS[config] + \
                  ["-resource-dir", res, "-Wno-everything"]
            r = subprocess.run(cmd, capture_output=True, text=True)
            return u["src"], r.returncode, r.stderr[-1500:]

        with ThreadPoolExecutor(max_workers=16) as ex:
            results = list(ex.map(run, units))
        bad = [(s, e) for s, rc, e in results if rc != 0]
        if bad:
            raise AnalysisBroken("extractor failed on %d unit(s): %s" %
                                 (len(bad), "; ".join("%s: %s" % b for b in bad[:3])))
        with open(done, "w") as f:
            f.write("ok")
        _gc(os.path.join(WORK, "facts"), keep=6)
    return cached


def _gc(d, keep):
    """Drop old fact caches; never one younger than 30 minutes (a concurrent
    run may be using it)."""
    try:
        ents = sorted((os.path.getmtime(os.path.join(d, e)), e) for e in os.listdir(d))
    except OSError:
        return
    now = time.time()
    for mt, e in ents[:-keep]:
        if now - mt > 1800:
            shutil.rmtree(os.path.join(d, e), ignore_errors=True)


if __name__ == "__main__":
    try:
        build_extractor(force="--force" in sys.argv)
        f, info = extract("real")
        print(json.dumps(info))
    except AnalysisBroken as e:
        print("ANALYSIS-BROKEN:", e)
        sys.exit(2)
