"""Check driver: obligations, verdict lines, reports, evidence, known findings."""
import importlib
import json
import os
import sys
import time

from . import build, program
from .build import AnalysisBroken, VERIF

KNOWN = os.path.join(VERIF, "known_findings.json")
REPORTS = os.path.join(VERIF, "reports")
EVIDENCE = os.path.join(VERIF, "evidence")


class Ctx(object):
    def __init__(self, prop, tier, seed):
        self.prop = prop
        self.tier = tier
        self.seed = seed
        self.t0 = time.time()
        self.obl = []            # every obligation evaluated
        self.rule_sites = {}     # rule -> number of sites matched
        self.nontrivial = set()  # (rule, instance) that matched a site and walked a path / compared a pair
        self.analysed_functions = set()
        self.configs = {}
        self.notes = []
        self._programs = {}
        self.audit = None
        self.config = os.environ.get("LCDB_CONFIG", "real")

    # -- program access ---------------------------------------------------
    def program(self, config="real"):
        if config not in self._programs:
            facts, info = build.extract(config)
            P = program.Program(facts, info)
            self._programs[config] = P
            self.configs[config] = info
        return self._programs[config]

    @property
    def P(self):
        return self.program(self.config)

    def fn(self, name, file=None, P=None):
        f = (P or self.P).fn(name, file)
        self.analysed_functions.add((f.file, f.name))
        return f

    # -- obligations --------------------------------------------------------
    def ok(self, rule, instance, site, detail="", nontrivial=True):
        self.obl.append({"rule": rule, "instance": instance, "site": site, "verdict": "ok",
                         "detail": detail})
        if nontrivial:
            self.nontrivial.add((rule, instance))

    def bad(self, rule, instance, function, site, detail, subject=None, path=None):
        self.obl.append({"rule": rule, "instance": instance, "site": site, "verdict": "violation",
                         "function": function, "subject": subject or instance, "detail": detail,
                         "path": path or []})
        self.nontrivial.add((rule, instance))

    def check(self, cond, rule, instance, function, site, detail_ok, detail_bad, subject=None, path=None):
        if cond:
            self.ok(rule, instance, site, detail_ok)
        else:
            self.bad(rule, instance, function, site, detail_bad, subject, path)
        return cond

    def require(self, cond, msg):
        """Anchor / vacuity guard: failing is 'analysis broken', not a verdict."""
        if not cond:
            raise AnalysisBroken(msg)

    def note(self, s):
        self.notes.append(s)


# violations that exist only in a non-shipped build configuration, each with its reason
CONFIG_EXCEPTIONS = {
    ("debug", "T3a-lockset", "ldb_open"): "assert(db->mem != NULL) after the unlock and before the handle is published (debug build only)",
    ("debug", "T2-no-abort-on-io", "builder_save_to"): "#ifndef NDEBUG consistency check of level ordering; compiled out of the shipped build",
}


def run_audit(prop):
    """Mutant audit of one property (thorough tier, after a passing verdict):
    every seeded mutation must be caught, every neutral rewrite must stay
    silent.  Reported in the evidence; never changes the verdict."""
    import subprocess
    env = dict(os.environ)
    env.pop("VERIF_TIER", None)
    r = subprocess.run([sys.executable, "-m", "sa.mutants", "--props", prop, "--jobs", "8"], cwd=VERIF, env=env,
                       capture_output=True, text=True)
    lines = [l for l in r.stdout.splitlines() if l[:6] in ("CAUGHT", "MISSED", "SILENT", "NOISY ", "SKIP  ")]
    res = {"caught": len([l for l in lines if l.startswith("CAUGHT")]),
           "missed": [l.split()[1] for l in lines if l.startswith("MISSED")],
           "silent": len([l for l in lines if l.startswith("SILENT")]),
           "noisy": [l.split()[1] for l in lines if l.startswith("NOISY")],
           "skipped": [l.split()[1] for l in lines if l.startswith("SKIP")]}
    return res


def load_known():
    try:
        with open(KNOWN) as f:
            return json.load(f)
    except OSError:
        return {"findings": [], "fixed": []}


def _match_known(prop, o, known):
    for k in known.get("findings", []):
        if (k.get("property") == prop and k.get("rule") == o["rule"].split("[")[0] and
                k.get("function") == o.get("function") and k.get("subject") == o.get("subject")):
            return k
    return None


def write_evidence(ctx, explanation, rule_text, violations, extra=None, trusted=None, assumptions=None):
    os.makedirs(EVIDENCE, exist_ok=True)
    ok = [o for o in ctx.obl if o["verdict"] == "ok"]
    samples = []
    seen_rules = set()
    for o in ctx.obl:
        if o["rule"] in seen_rules and len(samples) >= 12:
            continue
        if o["rule"] not in seen_rules or len(samples) < 40:
            samples.append({"rule": o["rule"], "instance": o["instance"], "site": o["site"],
                            "verdict": o["verdict"], "detail": o["detail"][:300]})
            seen_rules.add(o["rule"])
        if len(samples) >= 60:
            break
    cov = {
        "explanation": explanation,
        "rule": rule_text,
        "obligations": len(ctx.obl),
        "discharged": len(ok),
        "evaluations": len(ctx.obl),
        "distinct_nontrivial": len(ctx.nontrivial),
        "samples": samples,
        "checker_cmd": "bin/check %s --tier %s" % (ctx.prop, ctx.tier),
        "trusted_base": trusted or ["clang 14 parser and CFG builder", "tools/lcdbfacts.cc",
                                    "sa/*.py rule engines", "frozen rule tables in sa/props/*.py"],
        "units": max([i.get("units", 0) for i in ctx.configs.values()] or [0]),
        "configs": {k: {"flags": v.get("flags"), "tree_key": v.get("tree_key"), "cached": v.get("cached")}
                    for k, v in ctx.configs.items()},
        "functions_analysed": len(ctx.analysed_functions),
        "functions_in_library": len(ctx.P.all_functions) if "real" in ctx._programs else 0,
        "rules": sorted({o["rule"] for o in ctx.obl}),
        "exhaustive": True,
        "notes": ctx.notes,
    }
    if ctx.audit is not None:
        cov["mutant_audit"] = ctx.audit
    if extra:
        cov.update(extra)
    ev = {
        "property_id": ctx.prop,
        "tier": ctx.tier,
        "seed": ctx.seed,
        "level": "other",
        "coverage": cov,
        "assumptions": assumptions or [],
        "wall_s": round(time.time() - ctx.t0, 3),
        "violations": violations,
    }
    with open(os.path.join(EVIDENCE, ctx.prop + ".json"), "w") as f:
        json.dump(ev, f, indent=1, sort_keys=True)
        f.write("\n")


def run(prop, tier, seed, replay=None):
    mod = importlib.import_module("sa.props." + prop.lower())
    wanted = None
    if replay:
        try:
            with open(replay) as f:
                rep = json.load(f)
            wanted = {(o["rule"], o["instance"]) for o in rep.get("violations", [])}
            print("replaying %d reported violation(s) of %s on the current tree" % (len(wanted), prop))
        except (OSError, ValueError) as ex:
            print("cannot read report %s: %s" % (replay, ex))
            return 2
    ctx = Ctx(prop, tier, seed)
    known = load_known()
    try:
        mod.check(ctx)
        minimum = getattr(mod, "MIN_OBLIGATIONS", 1)
        if len(ctx.obl) < minimum:
            raise AnalysisBroken("only %d obligations evaluated, hand-confirmed minimum is %d"
                                 % (len(ctx.obl), minimum))
        if tier == "thorough" and ctx.config == "real" and not os.environ.get("VERIF_AUDIT"):
            # the same rules on the other build configurations of the POSIX port
            for cfg in ("debug", "pread"):
                n0 = len(ctx.obl)
                ctx.config = cfg
                try:
                    mod.check(ctx)
                finally:
                    ctx.config = "real"
                for o in ctx.obl[n0:]:
                    o["rule"] = "%s[%s]" % (o["rule"], cfg)
                    o["config"] = cfg
                ctx.nontrivial |= {("%s[%s]" % (o["rule"], cfg), o["instance"]) for o in ctx.obl[n0:]}
                ctx.note("configuration %s: %d obligations" % (cfg, len(ctx.obl) - n0))
    except AnalysisBroken as e:
        print("ANALYSIS-BROKEN property=%s: %s" % (prop, e))
        try:
            ctx.note("analysis broken: %s" % e)
            write_evidence(ctx, "ANALYSIS BROKEN (exit 2): " + str(e), getattr(mod, "RULE", ""), 0)
        except Exception:
            pass
        return 2
    for cfg, Pn in ctx._programs.items():
        nr = getattr(Pn, "normalised", None) or {}
        if any(nr.values()):
            ctx.note("normalisation[%s] relative to tables/locals.json: %d functions renamed back, %d functions with locals renamed "
                     "back, %d call sites of new helpers inlined, %d functions with new temporaries propagated: %s" %
                     (cfg, len(nr.get("renamed_functions", [])), len(nr.get("renamed", [])), len(nr.get("inlined_functions", [])),
                      len(nr.get("inlined_locals", [])),
                      "; ".join(["%s->%s" % (n, o) for f, n, o in nr.get("renamed_functions", [])][:5] +
                                ["%s%s" % (fn, sorted(m.items())) for f, fn, m in nr.get("renamed", [])][:5] +
                                ["%s<-%s" % (fn, g) for f, fn, g, l in nr.get("inlined_functions", [])][:5] +
                                ["%s:%s" % (fn, r) for f, fn, r in nr.get("inlined_locals", [])][:5])))
    viol = [o for o in ctx.obl if o["verdict"] == "violation"]
    # build-configuration specific exceptions (thorough tier)
    for o in viol:
        if o.get("config") and (o.get("config"), o["rule"].split("[")[0], o.get("function")) in CONFIG_EXCEPTIONS:
            o["verdict"] = "ok"
            o["detail"] = "listed for this configuration: " + CONFIG_EXCEPTIONS[(o["config"], o["rule"].split("[")[0], o.get("function"))]
    viol = [o for o in ctx.obl if o["verdict"] == "violation"]
    new = []
    announced = set()
    for o in viol:
        k = _match_known(prop, o, known)
        if k is not None:
            o["verdict"] = "known"
            if k.get("id", k.get("what")) not in announced:
                announced.add(k.get("id", k.get("what")))
                print("KNOWN-FINDING: property=%s %s" % (prop, k.get("what") or o["detail"]))
        else:
            new.append(o)
    rc = 0
    if wanted is not None:
        still = [o for o in new if (o["rule"], o["instance"]) in wanted]
        gone = wanted - {(o["rule"], o["instance"]) for o in new}
        for r_, i_ in sorted(gone):
            print("  no longer reproduces: rule=%s instance=%s" % (r_, i_))
        new = still
    if new:
        os.makedirs(REPORTS, exist_ok=True)
        rp = os.path.join(REPORTS, "%s-%s.json" % (prop, tier))
        with open(rp, "w") as f:
            json.dump({"property": prop, "violations": new}, f, indent=1)
        for o in new:
            print("  violated: rule=%s instance=%s function=%s at %s: %s" %
                  (o["rule"], o["instance"], o.get("function"), o["site"], o["detail"]))
            if o.get("path"):
                print("    path: " + " -> ".join(str(x) for x in o["path"][:40]))
        print("VIOLATION property=%s replay=%s" % (prop, rp))
        rc = 1
    if tier == "thorough" and rc == 0 and not os.environ.get("VERIF_AUDIT") and not os.environ.get("LCDB_SCRATCH_OF"):
        try:
            ctx.audit = run_audit(prop)
            print("mutant audit: %d caught, %d missed %s, %d neutral silent, %d noisy %s, %d skipped" %
                  (ctx.audit["caught"], len(ctx.audit["missed"]), ctx.audit["missed"], ctx.audit["silent"],
                   len(ctx.audit["noisy"]), ctx.audit["noisy"], len(ctx.audit["skipped"])))
        except Exception as ex:      # the audit is advisory
            ctx.audit = {"error": str(ex)}
    write_evidence(ctx, getattr(mod, "EXPLANATION", ""), getattr(mod, "RULE", ""), len(new),
                   extra=getattr(mod, "extra_evidence", lambda c: None)(ctx),
                   assumptions=getattr(mod, "ASSUMPTIONS", []))
    nok = len([o for o in ctx.obl if o["verdict"] == "ok"])
    print("%s tier=%s: %d obligations, %d discharged, %d known, %d violated; %d rules; %.1fs" %
          (prop, tier, len(ctx.obl), nok, len(viol) - len(new), len(new),
           len({o["rule"] for o in ctx.obl}), time.time() - ctx.t0))
    return rc


def _sweep_audit_dirs(max_age=3600):
    """Scratch runs (--no-evidence) write to per-process directories; drop those older than an hour."""
    import shutil
    now = time.time()
    for sub in ("audit-evidence", "audit-reports"):
        d = os.path.join(build.WORK, sub)
        try:
            for e in os.listdir(d):
                pth = os.path.join(d, e)
                try:
                    if now - os.path.getmtime(pth) > max_age:
                        shutil.rmtree(pth, ignore_errors=True)
                except OSError:
                    pass
        except OSError:
            pass


def main(argv):
    import argparse
    ap = argparse.ArgumentParser()
    ap.add_argument("prop")
    ap.add_argument("--tier", default=None)
    ap.add_argument("--replay", default=None)
    ap.add_argument("--no-evidence", action="store_true")
    a = ap.parse_args(argv)
    if a.no_evidence:
        global EVIDENCE, REPORTS
        EVIDENCE = os.path.join(build.WORK, "audit-evidence", str(os.getpid()))
        REPORTS = os.path.join(build.WORK, "audit-reports", str(os.getpid()))
        _sweep_audit_dirs()
    tier = os.environ.get("VERIF_TIER") or a.tier or "quick"
    if tier not in ("quick", "thorough"):
        tier = "quick"
    try:
        seed = int(os.environ.get("VERIF_SEED", "0"))
    except ValueError:
        seed = 0
    try:
        return run(a.prop.upper(), tier, seed, a.replay)
    except AnalysisBroken as e:
        print("ANALYSIS-BROKEN property=%s: %s" % (a.prop.upper(), e))
        return 2
    except Exception:
        import traceback
        traceback.print_exc()
        print("ANALYSIS-BROKEN property=%s: internal error in the checker (see traceback)" % a.prop.upper())
        return 2


if __name__ == "__main__":
    sys.exit(main(sys.argv[1:]))
