"""T3: interprocedural lock-state analysis.

For every function and every lock-state it can be entered with (contexts are
discovered top-down from the roots), the held set of *lock classes* is
propagated along all feasible paths of the status-sensitive exploded CFG.
Callees are analysed in the caller's held set and return their exit held
sets (memoised; recursion assumes "returns as entered").  Recorded:
acquisitions (with the set held before: lock order, self-deadlock),
releases of a lock that is not held, waits, lock contracts
(ldb_mutex_assert_held), accesses to guarded fields, and exit states
(balance).  Lock identity is syntactic: one mutex per class per handle.
"""
from collections import defaultdict, deque

from .build import AnalysisBroken
from .paths import xgraph
from .program import base_var, key, strip_casts

# mutex expression -> lock class (by struct/field of the mutex object)
CLASS_BY_FIELD = {
    ("ldb_s", "mutex"): "DB",
    ("ldb_istate_s", "mu"): "DB",          # alias: state->mu == &db->mutex (ldb_istate_create)
    ("lru_shard_s", "mutex"): "SHARD",
    ("ldb_lru_s", "id_mutex"): "LRUID",
    ("ldb_rfile_s", "mutex"): "RFILE",
    ("log_state_s", "lock"): "LOG",
    ("ldb_pool_s", "mutex"): "POOL",
    ("ldb_memtable_s", "mutex"): "MEMTABLE",
}
CLASS_BY_GLOBAL = {"file_mutex": "FILE"}
CLASS_BY_PARAM = {("ldb_versions_apply", "mu"): "DB"}     # alias: callers pass &db->mutex

LOCK, UNLOCK, WAIT = "ldb_mutex_lock", "ldb_mutex_unlock", "ldb_cond_wait"
SIGNALS = ("ldb_cond_signal", "ldb_cond_broadcast")

# cleanups an iterator may carry, by the function that created it (typestate on the
# creating call; DESIGN T3(e)).  Computed from the program: see cleanup_sets().
ITER_DESTROY = "ldb_iter_destroy"
RESTRICTED_CLEANUPS = {"cleanup_iter_state": ("ldb_dbiter_clear",)}


def _norm(s):
    import re
    return re.sub(r"_(s|t)$", "", s or "")


def classify(tree, fn):
    t = strip_casts(tree)
    if isinstance(t, dict) and t.get("k") == "un" and t.get("op") == "&":
        t = strip_casts(t["x"])
    if isinstance(t, dict) and t.get("k") == "mem":
        for (s, f), c in CLASS_BY_FIELD.items():
            if f == t["f"] and _norm(s) == _norm(t.get("s")):
                return c
    if isinstance(t, dict) and t.get("k") == "var":
        if t.get("kind") == "global" and t["n"] in CLASS_BY_GLOBAL:
            return CLASS_BY_GLOBAL[t["n"]]
        if t.get("kind") == "param" and (fn.name, t["n"]) in CLASS_BY_PARAM:
            return CLASS_BY_PARAM[(fn.name, t["n"])]
    raise AnalysisBroken("unknown mutex expression %s in %s (no lock class; extend sa/locks.py tables)"
                         % (key(tree), fn.name))


class LockAnalysis(object):
    def __init__(self, P, guarded=None, st_functions=()):
        self.P = P
        self.guarded = guarded or {}            # (struct norm, field) -> class
        self.st_functions = set(st_functions)   # entering one of these switches to single-threaded mode
        self.memo = {}
        self.active = set()
        self.acquires = []     # (fn, event, class, held_before, mode)
        self.releases = []     # (fn, event, class, was_held, mode)
        self.waits = []        # (fn, event, class, was_held, mode)
        self.asserts = []      # (fn, event, class, was_held, mode)
        self.accesses = []     # (fn, event, struct, field, class, held, mode)
        self.calls = []        # (fn, event, callee name, held, mode)
        self.exits = {}        # (fnkey, H, mode) -> set of exit held sets
        self.contexts = defaultdict(set)   # fnkey -> {(H, mode)}
        self._cleanups = None
        self.stack = []
        self.first_chain = {}     # (fnkey, H) -> call chain by which this context was first reached

    def chain(self, fn, H, mode="mt"):
        return self.first_chain.get(((fn.file, fn.line, fn.name), H, mode), [])

    # -- callbacks an iterator may run on destruction, by creator -----------
    def cleanup_sets(self):
        if self._cleanups is not None:
            return self._cleanups
        P = self.P
        reg = {}      # function -> cleanup function names it registers directly
        for f in P.all_functions:
            s = set()
            for b, i, e in f.events("call"):
                if e.get("f") == "ldb_iter_register_cleanup" and len(e.get("a", [])) > 1:
                    a = strip_casts(e["a"][1])
                    if isinstance(a, dict) and a.get("k") == "un":
                        a = strip_casts(a["x"])
                    if isinstance(a, dict) and a.get("k") == "fn":
                        s.add(a["n"])
            reg[f] = s
        allc = set()
        for s in reg.values():
            allc |= s
        cg = P.callgraph()
        trans = {}

        def reach(f):
            seen = set()
            st = [f]
            out = set()
            while st:
                g = st.pop()
                if g in seen:
                    continue
                seen.add(g)
                out |= reg.get(g, set())
                for h, e in cg.get(g, ()):
                    st.append(h)
                # functions handed over as block readers etc.
                for b, i, e in g.events("call"):
                    for a in e.get("a", []):
                        a = strip_casts(a)
                        if isinstance(a, dict) and a.get("k") == "un" and a.get("op") == "&":
                            a = strip_casts(a["x"])
                        if isinstance(a, dict) and a.get("k") == "fn":
                            h = P.resolve(a["n"], g)
                            if h is not None:
                                st.append(h)
            return out
        self._reach_cleanups = reach
        self._all_cleanups = allc
        self._cleanups = trans
        return trans

    def cleanups_of_creator(self, fn, creator_name):
        self.cleanup_sets()
        g = self.P.resolve(creator_name, fn)
        if g is None:
            return set(self._all_cleanups)
        k = (g.file, g.name)
        if k not in self._cleanups:
            self._cleanups[k] = self._reach_cleanups(g)
        return self._cleanups[k]

    def _creator_of(self, fn, var):
        """If local `var` of fn has exactly one definition and it is a direct
        call, returns the callee name."""
        defs = []
        for b, i, e in fn.events():
            if e["e"] == "decl" and e["n"] == var and "init" in e:
                defs.append(e["init"])
            elif e["e"] == "asg" and key(e["lhs"]) == var:
                defs.append(e["rhs"])
        if len(defs) != 1:
            return None
        d = strip_casts(defs[0])
        if isinstance(d, dict) and d.get("k") == "call" and d.get("f"):
            return d["f"]
        return None

    # -- analysis ---------------------------------------------------------------
    def analyse(self, fn, H=frozenset(), mode="mt", depth=0, bind=()):
        if fn.name in self.st_functions:
            mode = "st"
        fk = (fn.file, fn.line, fn.name)
        k = (fk, H, mode, bind)
        self.cur_bind = dict(bind)
        if k in self.memo:
            return self.memo[k]
        if k in self.active or depth > 60:
            return frozenset([H])          # recursion: assume balanced
        self.active.add(k)
        self.stack.append(fn.name)
        self.first_chain.setdefault((fk, H, mode), list(self.stack))
        self.contexts[fk].add((H, mode))
        g = xgraph(self.P, fn)
        exits = set()
        seen = set()
        work = deque([(g.start, H)])
        while work:
            cur = work.popleft()
            if cur in seen:
                continue
            seen.add(cur)
            n, held = cur
            bid, st = g.node_list[n]
            blk = fn.blocks[bid]
            states = {held}
            for e in blk.ev:
                nxt = set()
                for h in states:
                    self.cur_bind = dict(bind)
                    nxt |= self._event(fn, e, h, mode, depth)
                states = nxt
                if not states:
                    break
            if blk.noret:
                continue
            if bid == fn.exit or not g.succ[n]:
                if bid == fn.exit:
                    exits |= states
                continue
            for m, lit in g.succ[n]:
                for h in states:
                    if (m, h) not in seen:
                        work.append((m, h))
        self.active.discard(k)
        self.stack.pop()
        if not exits:
            exits = set()      # function never returns normally (abort / infinite loop)
        res = frozenset(exits)
        self.memo[k] = res
        self.exits[(fk, H, mode)] = self.exits.get((fk, H, mode), frozenset()) | res
        return res

    def _event(self, fn, e, held, mode, depth):
        k = e["e"]
        if k == "call":
            f = e.get("f")
            if f == LOCK:
                c = classify(e["a"][0], fn)
                self.acquires.append((fn, e, c, held, mode))
                return {held | {c}}
            if f == UNLOCK:
                c = classify(e["a"][0], fn)
                self.releases.append((fn, e, c, c in held, mode))
                return {held - {c}}
            if f == WAIT:
                c = classify(e["a"][1], fn)
                self.waits.append((fn, e, c, c in held, mode))
                return {held}
            callees = self._callees(fn, e)
            self.calls.append((fn, e, f or "<indirect>", held, mode))
            if not callees:
                return {held}
            out = set()
            mybind = dict(self.cur_bind)
            for g in callees:
                ex = self.analyse(g, held, mode, depth + 1, self._bindings(fn, e, g, mybind))
                out |= set(ex)
            if not out:
                return set()       # every callee diverges
            return out
        if k == "void":
            if "ldb_mutex_assert_held" in (e.get("mac") or ()):
                c = classify(e["x"], fn)
                self.asserts.append((fn, e, c, c in held, mode))
            return {held}
        if k == "mem" and self.guarded:
            if hasattr(self.guarded, "lookup"):
                c = self.guarded.lookup(e.get("s"), e["f"], fn.file)
            else:
                c = self.guarded.get((_norm(e.get("s")), e["f"]))
            if c is not None and e["mode"] in ("r", "w", "rw", "addr", "arr", "path"):
                self.accesses.append((fn, e, e.get("s"), e["f"], c, held, mode))
            return {held}
        return {held}

    def _bindings(self, fn, e, g, mybind):
        """Function-pointer arguments of this call, as bindings of g's
        parameters: a function name, None (null pointer), or absent."""
        out = []
        if "f" not in e:
            return ()
        for k, a in enumerate(e.get("a", [])):
            if k >= len(g.params):
                break
            pt = g.params[k]["t"]
            if "(*" not in pt and not pt.endswith("_f *") and not pt.endswith("_f"):
                continue
            a = strip_casts(a)
            if isinstance(a, dict) and a.get("k") == "un" and a.get("op") == "&":
                a = strip_casts(a["x"])
            if isinstance(a, dict) and a.get("k") == "fn":
                out.append((g.params[k]["n"], a["n"]))
            elif isinstance(a, dict) and a.get("k") == "int" and a.get("v") == "0":
                out.append((g.params[k]["n"], None))
            elif isinstance(a, dict) and a.get("k") == "var" and a.get("kind") == "param" and a["n"] in mybind:
                out.append((g.params[k]["n"], mybind[a["n"]]))
        return tuple(sorted(out, key=lambda x: x[0]))

    def _callees(self, fn, e):
        P = self.P
        if "fp" in e:
            fp = strip_casts(e["fp"])
            if isinstance(fp, dict) and fp.get("k") == "un" and fp.get("op") == "*":
                fp = strip_casts(fp["x"])
            if isinstance(fp, dict) and fp.get("k") == "var" and fp.get("kind") == "param" and fp["n"] in self.cur_bind:
                n = self.cur_bind[fp["n"]]
                if n is None:
                    return []
                g = P.resolve(n, fn)
                return [g] if g is not None else []
        if e.get("f") == ITER_DESTROY:
            # typestate: which cleanups can this iterator carry?
            a = strip_casts(e["a"][0]) if e.get("a") else None
            names = None
            local_regs = set()
            if isinstance(a, dict) and a.get("k") == "var" and a.get("kind") in ("local", "param"):
                # cleanups attached to this very variable inside this function
                for b2, i2, e2 in fn.events("call"):
                    if e2.get("f") == "ldb_iter_register_cleanup" and len(e2.get("a", [])) > 1 and \
                            key(e2["a"][0]) == a["n"]:
                        c2 = strip_casts(e2["a"][1])
                        if isinstance(c2, dict) and c2.get("k") == "un":
                            c2 = strip_casts(c2["x"])
                        if isinstance(c2, dict) and c2.get("k") == "fn":
                            local_regs.add(c2["n"])
            if isinstance(a, dict) and a.get("k") == "var" and a.get("kind") == "local":
                cr = self._creator_of(fn, a["n"])
                if cr is not None:
                    names = set(self.cleanups_of_creator(fn, cr))
            if names is None:
                self.cleanup_sets()
                names = set(self._all_cleanups)
                # cleanup_iter_state is attached only by ldb_internal_iterator, whose result flows
                # only into ldb_dbiter_create / out of the test API (rule T5-istate-confined):
                # inside the library only ldb_dbiter_clear can destroy such an iterator
                for cname, owners in RESTRICTED_CLEANUPS.items():
                    if fn.name not in owners:
                        names.discard(cname)
            names |= local_regs
            out = []
            for n in sorted(names):
                g = P.resolve(n, fn)
                if g is not None:
                    out.append(g)
            return out
        cs = P.callees(fn, e)
        if "fp" in e and not fn.file.endswith("table/iterator.c"):
            # user-level DB iterators (ldb_dbiter_*) are created only by ldb_iterator and handed to
            # the caller (rule T5-dbiter-confined); the library's own vtable calls never see one
            cs = [g for g in cs if not g.name.startswith("ldb_dbiter_")]
        return cs


def default_roots(P):
    """Functions nobody in the library calls (API entry points, thread
    entries, callbacks handed to libc)."""
    called = set()
    cg = P.callgraph()
    for f, outs in cg.items():
        for g, e in outs:
            called.add(g)
    passed = set()
    for f in P.all_functions:
        for b, i, e in f.events("call"):
            for a in e.get("a", []):
                a = strip_casts(a)
                if isinstance(a, dict) and a.get("k") == "un" and a.get("op") == "&":
                    a = strip_casts(a["x"])
                if isinstance(a, dict) and a.get("k") == "fn":
                    g = P.resolve(a["n"], f)
                    if g is not None:
                        passed.add(g)
    roots = [f for f in P.all_functions if f not in called]
    return roots, passed
