"""Path kernel: status-sensitive exploded CFG, must-hold branch literals,
and finite-automaton checks over all feasible paths of one function.

State of a path = frozenset of facts about *local* scalar variables and about
the result of the last execution of a call site:
  ("z", v) / ("nz", v)      local v is zero / non-zero
  ("p", v, cid)             v holds the result of the last execution of call cid
  ("cz", cid)/("cnz", cid)  that execution returned zero / non-zero
Only the repo's idioms are interpreted (comparison with constants, !x, x,
(x = f()) ...).  Anything else leaves the state unchanged, i.e. both branches
are walked.  The state space is finite, so exploration terminates.
"""
from collections import defaultdict, deque

from .build import AnalysisBroken
from .program import (base_var, calls_in, const_val, fields_in, is_zero, key, show, strip_casts,
                      vars_in, walk)

MAX_NODES = 60000


# --------------------------------------------------------------------------
# literal normalisation
# --------------------------------------------------------------------------

NEG = {"==": "!=", "!=": "==", "<": ">=", ">=": "<", ">": "<=", "<=": ">"}
MIRROR = {"==": "==", "!=": "!=", "<": ">", ">": "<", "<=": ">=", ">=": "<="}


def ckey(t):
    """Key of a condition operand; call nodes carry their site id."""
    t = strip_casts(t)
    if isinstance(t, dict) and t.get("k") in ("call", "atomic"):
        return "%s#%s" % (key(t), t.get("id"))
    c = const_val(t)
    if c is not None and (not isinstance(t, dict) or t.get("k") in ("int", "cast", "sizeof", "bin", "un")):
        if not vars_in(t) and not fields_in(t):
            return str(c)
    return key(t)


_UNSIGNED = ("size_t", "uint8_t", "uint16_t", "uint32_t", "uint64_t", "unsigned int", "unsigned long",
             "unsigned char", "unsigned short", "ldb_seqnum_t", "unsigned long long")


def _is_unsigned(t):
    t = strip_casts(t)
    if not isinstance(t, dict):
        return False
    ty = t.get("t", "")
    ty = ty.replace("const ", "").replace("volatile ", "").strip()
    return ty in _UNSIGNED


def norm_literal(cond, pol):
    """-> list of (op, a, b) relational atoms that hold when cond has truth
    value pol.  a/b are operand keys.  Unknown shapes give ('!=', key, '0')."""
    t = strip_casts(cond)
    if not isinstance(t, dict):
        return []
    k = t.get("k")
    if k == "call" and t.get("f") == "__builtin_expect" and t.get("a"):
        return norm_literal(t["a"][0], pol)       # LIKELY(c) / UNLIKELY(c)
    if k == "un" and t.get("op") == "!":
        return norm_literal(t["x"], not pol)
    if k == "bin" and t["op"] in NEG:
        op = t["op"] if pol else NEG[t["op"]]
        a, b = ckey(t["l"]), ckey(t["r"])
        # unsigned operand against 0:  x <= 0  is  x == 0,  x > 0  is  x != 0
        if b == "0" and _is_unsigned(t["l"]):
            op = {"<=": "==", ">": "!="}.get(op, op)
        elif a == "0" and _is_unsigned(t["r"]):
            op = {">=": "==", "<": "!="}.get(op, op)
        out = [(op, a, b)]
        # (x = f()) != 0 : also speaks about x
        for side, other in ((t["l"], t["r"]), (t["r"], t["l"])):
            s = strip_casts(side)
            if isinstance(s, dict) and s.get("k") == "bin" and s.get("op") == "=":
                out.append((op if side is t["l"] else MIRROR[op], ckey(s["l"]), ckey(other)))
        return out
    if k == "bin" and t["op"] == "=":
        return [("!=" if pol else "==", ckey(t["l"]), "0")]
    if k == "bin" and t["op"] == "&&" and pol:
        return norm_literal(t["l"], True) + norm_literal(t["r"], True)
    if k == "bin" and t["op"] == "||" and not pol:
        return norm_literal(t["l"], False) + norm_literal(t["r"], False)
    return [("!=" if pol else "==", ckey(t), "0")]


def _num(s):
    try:
        return int(s)
    except (TypeError, ValueError):
        return None


def atom_implies(have, want):
    """Does relational atom `have` imply `want` (same operands, syntactic)?"""
    ho, ha, hb = have
    wo, wa, wb = want
    if (ha, hb) != (wa, wb):
        if (hb, ha) == (wa, wb):
            ho, ha, hb = MIRROR[ho], hb, ha
        elif ha == wa and _num(hb) is not None and _num(wb) is not None:
            return _const_implies(ho, _num(hb), wo, _num(wb))
        elif hb == wb and _num(ha) is not None and _num(wa) is not None:
            return _const_implies(MIRROR[ho], _num(ha), MIRROR[wo], _num(wa))
        else:
            return False
    if ho == wo:
        return True
    table = {"<": ("<=", "!="), ">": (">=", "!="), "==": ("<=", ">=")}
    return wo in table.get(ho, ())


def _const_implies(ho, hc, wo, wc):
    """x ho hc  ==>  x wo wc ?  (integers)"""
    # represent `x ho hc` as an interval / point-exclusion over the integers
    INF = float("inf")

    def interval(op, c):
        if op == "<":
            return (-INF, c - 1)
        if op == "<=":
            return (-INF, c)
        if op == ">":
            return (c + 1, INF)
        if op == ">=":
            return (c, INF)
        if op == "==":
            return (c, c)
        return None
    hi = interval(ho, hc)
    wi = interval(wo, wc)
    if hi is None:
        return ho == wo and hc == wc
    if wi is None:  # want x != wc
        return not (hi[0] <= wc <= hi[1])
    return wi[0] <= hi[0] and hi[1] <= wi[1]


def implied(atoms, want):
    return any(atom_implies(a, want) for a in atoms)


# --------------------------------------------------------------------------
# may-store summaries (for killing literals across calls)
# --------------------------------------------------------------------------

def _sig_params(t):
    """'int (*const)(const T *, U *)' -> ['const T *', 'U *']"""
    i = t.rfind("(")
    j = t.rfind(")")
    if i < 0 or j < i:
        return None
    inner = t[i + 1:j].strip()
    if not inner or inner == "void":
        return []
    out, depth, cur = [], 0, ""
    for ch in inner:
        if ch == "," and depth == 0:
            out.append(cur.strip())
            cur = ""
            continue
        if ch in "([":
            depth += 1
        elif ch in ")]":
            depth -= 1
        cur += ch
    out.append(cur.strip())
    return out


def _const_pointee(t):
    t = t.strip()
    return t.startswith("const ") and t.endswith("*") and t.count("*") == 1


def maystore_summaries(P):
    """Function -> set of field names it (transitively) may store to."""
    if getattr(P, "_maystore", None) is not None:
        return P._maystore
    direct = {}
    for f in P.all_functions:
        s = set()
        for bid, i, e in f.events("mem"):
            if e["mode"] in ("w", "rw", "addr", "arr"):
                s.add(e["f"])
        direct[f] = s
    cg = P.callgraph()
    changed = True
    summ = {f: set(s) for f, s in direct.items()}
    while changed:
        changed = False
        for f in P.all_functions:
            s = summ[f]
            n = len(s)
            for g, e in cg.get(f, ()):
                s |= summ[g]
            if len(s) != n:
                changed = True
    P._maystore = summ
    return summ


# --------------------------------------------------------------------------
# callee facts used by the path kernel
# --------------------------------------------------------------------------

# status getters of the iterator interface: return the stored status, no side
# effect.  Two adjacent calls with the same arguments agree (idiom
# `if (ldb_iter_status(it) != LDB_OK) rc = ldb_iter_status(it);`).
PURE_STATUS = ("ldb_iter_status",)


def _call_name(e):
    if "f" in e:
        return e["f"]
    for m in e.get("mac", ()):
        return m
    return None


def always_nonzero(P, name, caller=None, _depth=0):
    """Does every return of function `name` yield a non-zero value?  Decided
    on the callee's own exploded graph (e.g. ldb_system_error)."""
    cache = P.__dict__.setdefault("_nonzero", {})
    f = P.resolve(name, caller) if caller is not None else (P.fns_named(name) or [None])[0]
    if f is None:
        return False
    k = (f.file, f.line, f.name)
    if k in cache:
        return cache[k]
    if not (f.ret.startswith("int") or f.ret.endswith("*")):
        cache[k] = False
        return False
    if _depth > 6:
        return False      # not cached: a shallower query may still decide it
    cache[k] = False      # recursion guard
    g = XGraph(P, f)
    res = True
    seen = False
    for n, (bid, st) in enumerate(g.node_list):
        for i, e in enumerate(f.blocks[bid].ev):
            if e["e"] != "ret":
                continue
            seen = True
            st2 = g.state_before(n, i)
            x = strip_casts(e.get("x"))
            c = const_val(x) if x is not None else None
            if x is None:
                res = False
            elif c is not None and not vars_in(x) and not fields_in(x):
                if c == 0:
                    res = False
            elif isinstance(x, dict) and x.get("k") == "var":
                if ("nz", x["n"]) not in st2:
                    res = False
            elif isinstance(x, dict) and x.get("k") == "call" and x.get("f"):
                if not always_nonzero(P, x["f"], f, _depth + 1):
                    res = False
            else:
                res = False
    cache[k] = res and seen
    return cache[k]


# --------------------------------------------------------------------------
# exploded graph
# --------------------------------------------------------------------------

class XGraph(object):
    def __init__(self, P, fn, track_paths=(), interpret=True, keep_calls=(), keep_vars=()):
        self.P = P
        self.fn = fn
        self.keep_vars = set(keep_vars)
        self.track_paths = set(track_paths)
        self.interpret = interpret
        self.keep_calls = set(keep_calls)
        self.keep_ids = set()
        self.pure_ids = {}
        for bid, i, e in fn.events("call"):
            if _call_name(e) in PURE_STATUS:
                self.pure_ids[e["id"]] = key({"k": "call", "f": _call_name(e), "a": e.get("a", [])})
                self.keep_ids.add(e["id"])
            if e.get("f") in self.keep_calls:
                self.keep_ids.add(e["id"])
            elif "fp" in e and self.keep_calls:
                for m in e.get("mac", []):
                    if m in self.keep_calls:
                        self.keep_ids.add(e["id"])
        self.escaped = self._escaped_vars()
        self.live = self._liveness()
        self.nodes = {}          # (bid, state) -> index
        self.node_list = []
        self.succ = defaultdict(list)   # idx -> [(idx2, literal)]
        self.pred = defaultdict(list)
        self._build()

    # -- which locals may be tracked ----------------------------------------
    def _escaped_vars(self):
        """Locals whose address is stored or passed in a way that lets a later
        call change them behind our back (not the direct &v call argument,
        which is handled as a kill at that call)."""
        esc = set()
        fn = self.fn
        for bid, i, e in fn.events("asg"):
            for n in walk(e["rhs"]):
                if n.get("k") == "un" and n.get("op") == "&":
                    v = base_var(n["x"])
                    x = strip_casts(n["x"])
                    if v and isinstance(x, dict) and x.get("k") == "var":
                        esc.add(v)
        for bid, i, e in fn.events("decl"):
            for n in walk(e.get("init")):
                if n.get("k") == "un" and n.get("op") == "&":
                    x = strip_casts(n["x"])
                    if isinstance(x, dict) and x.get("k") == "var":
                        esc.add(x["n"])
        return esc

    def _liveness(self):
        """Live-in sets of local variable names per block (backward may)."""
        fn = self.fn
        defs = {}
        gen = {}
        for bid, b in fn.blocks.items():
            d = set()
            g = set()
            for e in b.ev:
                k = e["e"]
                uses = set()
                dd = None
                if k == "asg":
                    lhs = strip_casts(e["lhs"])
                    if isinstance(lhs, dict) and lhs.get("k") == "var" and e["op"] == "=":
                        dd = lhs["n"]
                    else:
                        uses |= vars_in(e["lhs"])
                    uses |= vars_in(e["rhs"])
                elif k == "decl":
                    dd = e["n"]
                    uses |= vars_in(e.get("init"))
                elif k in ("call", "atomic"):
                    for a in e.get("a", []):
                        uses |= vars_in(a)
                    uses |= vars_in(e.get("fp"))
                    uses |= vars_in(e.get("p"))
                else:
                    for kk in ("x", "b", "i", "lhs", "rhs"):
                        uses |= vars_in(e.get(kk))
                g |= (uses - d)
                if dd is not None:
                    d.add(dd)
            if b.term is not None and "cond" in b.term:
                g |= (vars_in(b.term["cond"]) - d)
            defs[bid] = d
            gen[bid] = g
        live_in = {bid: set(gen[bid]) for bid in fn.blocks}
        changed = True
        while changed:
            changed = False
            for bid, b in fn.blocks.items():
                out = set()
                for s in b.succ:
                    if s is not None:
                        out |= live_in[s]
                new = gen[bid] | (out - defs[bid])
                if new != live_in[bid]:
                    live_in[bid] = new
                    changed = True
        return live_in

    def _prune(self, st, bid):
        live = self.live[bid]
        return frozenset(f for f in st
                         if (f[0] in ("z", "nz", "p", "neg") and (f[1] in live or f[1] in self.track_paths or f[1] in self.keep_vars)
                             and (f[0] != "p" or f[2] in self.keep_ids))
                         or (f[0] in ("cz", "cnz") and f[1] in self.keep_ids))

    def trackable(self, t):
        t = strip_casts(t)
        if not isinstance(t, dict):
            return None
        if t.get("k") == "var" and t.get("kind") in ("local", "param"):
            if t["n"] in self.escaped:
                return None
            ty = t.get("t", "")
            if "[" in ty or ty.startswith("struct ") and "*" not in ty:
                return None
            return t["n"]
        if t.get("k") == "mem":
            kk = key(t)
            if kk in self.track_paths:
                return kk
        return None

    # -- transfer ---------------------------------------------------------
    def _kill(self, st, lv):
        return frozenset(f for f in st if not (f[0] in ("z", "nz", "p", "neg") and f[1] == lv))

    def _assign(self, st, lv, rhs):
        st = self._kill(st, lv)
        r = strip_casts(rhs)
        add = set()
        if isinstance(r, dict):
            if r.get("k") == "call":
                add.add(("p", lv, r["id"]))
                if r.get("f") and always_nonzero(self.P, r["f"], self.fn):
                    add.add(("nz", lv))
                if r["id"] in self.pure_ids:
                    kk = self.pure_ids[r["id"]]
                    for f in st:
                        if f[0] in ("cz", "cnz") and f[1] != r["id"] and self.pure_ids.get(f[1]) == kk:
                            add.add(("z" if f[0] == "cz" else "nz", lv))
            elif r.get("k") == "bin" and r.get("op") == "=":
                # chained assignment a = b = c
                return self._assign(st, lv, r["r"])
            else:
                c = const_val(r)
                src = self.trackable(r)
                if c is not None and not vars_in(r) and not fields_in(r):
                    add.add(("z", lv) if c == 0 else ("nz", lv))
                    if c < 0:
                        add.add(("neg", lv))
                elif src is not None and src != lv:
                    for f in st:
                        if f[0] in ("z", "nz", "p", "neg") and f[1] == src:
                            add.add((f[0], lv) + f[2:])
                elif r.get("k") == "un" and r.get("op") == "&":
                    add.add(("nz", lv))
        return frozenset(st | add)

    def transfer(self, st, e):
        if not self.interpret:
            return st
        k = e["e"]
        if k == "asg":
            lv = self.trackable(e["lhs"])
            if lv is not None:
                if e["op"] == "=":
                    return self._assign(st, lv, e["rhs"])
                return self._kill(st, lv)
            return st
        if k == "decl":
            if "init" in e and not e.get("static"):
                t = {"k": "var", "n": e["n"], "t": e["t"], "kind": "local"}
                lv = self.trackable(t)
                if lv is not None:
                    return self._assign(st, lv, e["init"])
            return st
        if k == "inc":
            lv = self.trackable(e["x"])
            if lv is not None:
                return self._kill(st, lv)
            return st
        if k in ("call", "atomic"):
            cid = e["id"]
            pure = cid in self.pure_ids
            st = frozenset(f for f in st if not ((f[0] in ("cz", "cnz") and
                                                  (f[1] == cid or (not pure and f[1] in self.pure_ids))) or
                                                 (f[0] == "p" and f[2] == cid)))
            for a in e.get("a", []):
                a = strip_casts(a)
                if isinstance(a, dict) and a.get("k") == "un" and a.get("op") == "&":
                    lv = self.trackable(a["x"])
                    if lv is not None:
                        st = self._kill(st, lv)
            if self.track_paths:
                # calls may change tracked member paths
                st = frozenset(f for f in st if not (f[0] in ("z", "nz", "p") and f[1] in self.track_paths))
            return st
        if k == "mem" and e["mode"] in ("w", "rw") and self.track_paths:
            return st  # handled through the asg event
        return st

    # -- branch refinement ------------------------------------------------
    def _truth(self, st, t, pol):
        """Refine st by `t has truth value pol`; None if infeasible."""
        t = strip_casts(t)
        if not isinstance(t, dict):
            return st
        k = t.get("k")
        if k == "call" and t.get("f") == "__builtin_expect" and t.get("a"):
            return self._truth(st, t["a"][0], pol)
        if k == "un" and t.get("op") == "!":
            return self._truth(st, t["x"], not pol)
        if k == "bin" and t["op"] in ("==", "!="):
            l, r = strip_casts(t["l"]), strip_casts(t["r"])
            eq = (t["op"] == "==") == pol     # True: l == r holds
            for a, b in ((l, r), (r, l)):
                c = const_val(b)
                if c is None or vars_in(b) or fields_in(b):
                    continue
                if c == 0:
                    return self._truth(st, a, not eq)
                # comparison with a non-zero constant: equal => non-zero
                if eq:
                    return self._truth(st, a, True)
                return st
            return st
        if k == "bin" and t["op"] == "=":
            return self._truth(st, t["l"], pol)
        if k == "bin" and t["op"] in (">=", "<") and const_val(t["r"]) == 0:
            lv = self.trackable(t["l"])
            if lv is not None and ("neg", lv) in st:
                # a variable known to hold a negative constant (fd = -1)
                if (t["op"] == ">=") == pol:
                    return None
            return st
        if k == "bin" and t["op"] == "&&" and pol:
            st = self._truth(st, t["l"], True)
            return None if st is None else self._truth(st, t["r"], True)
        if k == "bin" and t["op"] == "||" and not pol:
            st = self._truth(st, t["l"], False)
            return None if st is None else self._truth(st, t["r"], False)
        if k in ("call", "atomic"):
            cid = t["id"]
            want, anti = (("cnz", cid), ("cz", cid)) if pol else (("cz", cid), ("cnz", cid))
            if anti in st:
                return None
            return frozenset(st | {want})
        lv = self.trackable(t)
        if lv is not None:
            want, anti = (("nz", lv), ("z", lv)) if pol else (("z", lv), ("nz", lv))
            if anti in st:
                return None
            out = set(st)
            out.add(want)
            for f in st:
                if f[0] == "p" and f[1] == lv:
                    cw, ca = (("cnz", f[2]), ("cz", f[2])) if pol else (("cz", f[2]), ("cnz", f[2]))
                    if ca in st:
                        return None
                    out.add(cw)
            return frozenset(out)
        c = const_val(t)
        if c is not None and not vars_in(t) and not fields_in(t):
            if (c != 0) != pol:
                return None
        return st

    def refine(self, st, lit):
        if lit is None or not self.interpret:
            return st
        if lit[0] in ("case", "default"):
            return st
        return self._truth(st, lit[0], lit[1])

    # -- construction -----------------------------------------------------
    def _node(self, bid, st):
        k = (bid, st)
        i = self.nodes.get(k)
        if i is None:
            i = len(self.node_list)
            self.nodes[k] = i
            self.node_list.append(k)
            if i > MAX_NODES:
                raise AnalysisBroken("state explosion in %s (> %d path states)" % (self.fn.name, MAX_NODES))
        return i

    def _build(self):
        fn = self.fn
        start = self._node(fn.entry, frozenset())
        work = deque([start])
        done = set()
        while work:
            n = work.popleft()
            if n in done:
                continue
            done.add(n)
            bid, st = self.node_list[n]
            b = fn.blocks[bid]
            for e in b.ev:
                st = self.transfer(st, e)
            if b.noret:
                continue
            for s, lit in fn.edge_literals(bid):
                st2 = self.refine(st, lit)
                if st2 is None:
                    continue
                m = self._node(s, self._prune(st2, s))
                self.succ[n].append((m, lit))
                self.pred[m].append((n, lit))
                if m not in done:
                    work.append(m)
        self.start = start

    def state_before(self, n, idx):
        bid, st = self.node_list[n]
        for e in self.fn.blocks[bid].ev[:idx]:
            st = self.transfer(st, e)
        return st

    def state_out(self, n):
        bid, st = self.node_list[n]
        for e in self.fn.blocks[bid].ev:
            st = self.transfer(st, e)
        return st

    def nodes_of_block(self, bid):
        return [i for i, (b, s) in enumerate(self.node_list) if b == bid]

    def exit_nodes(self):
        return self.nodes_of_block(self.fn.exit)

    # -- must-hold literals -----------------------------------------------
    def must_literals(self):
        """Forward must-dataflow: for each node, the set of relational atoms
        (op, a, b) that hold on every path reaching the node's entry."""
        if getattr(self, "_must", None) is not None:
            return self._must
        fn = self.fn
        ms = maystore_summaries(self.P)
        TOP = None
        IN = [TOP] * len(self.node_list)
        IN[self.start] = frozenset()
        # precompute per block kill info
        kill = {}
        for bid, b in fn.blocks.items():
            kv, kf, kc, kfc = set(), set(), set(), set()
            for e in b.ev:
                self._kills(e, kv, kf, kc, ms, kfc)
            kill[bid] = (kv, kf, kc, kfc)
        work = deque([self.start])
        inq = {self.start}
        while work:
            n = work.popleft()
            inq.discard(n)
            bid, st = self.node_list[n]
            cur = IN[n]
            out = self._apply_kill(cur, kill[bid])
            for m, lit in self.succ[n]:
                add = set(out)
                for a in self._lit_atoms(lit):
                    add.add(a)
                add = frozenset(add)
                if IN[m] is TOP:
                    new = add
                else:
                    new = IN[m] & add
                if IN[m] is TOP or new != IN[m]:
                    IN[m] = new
                    if m not in inq:
                        inq.add(m)
                        work.append(m)
        self._must = IN
        return IN

    def _lit_atoms(self, lit):
        if lit is None:
            return []
        if lit[0] == "case":
            return [("==", ckey(lit[1]), ckey(lit[2]))]
        if lit[0] == "default":
            return []
        return norm_literal(lit[0], lit[1])

    def _locals(self):
        r = getattr(self, "_local_names", None)
        if r is None:
            r = {p["n"] for p in self.fn.params}
            for b, i, e in self.fn.events("decl"):
                if not e.get("static"):
                    r.add(e["n"])
            self._local_names = r
        return r

    def _kills(self, e, kv, kf, kc, ms, kfc=None):
        if kfc is None:
            kfc = kf
        k = e["e"]
        if k in ("asg", "inc"):
            lhs = strip_casts(e.get("lhs") or e.get("x"))
            if isinstance(lhs, dict):
                if lhs.get("k") == "var":
                    kv.add(lhs["n"])
                elif lhs.get("k") == "mem":
                    kf.add(lhs["f"])
                else:
                    v = base_var(lhs)
                    if v:
                        kv.add("*" + v)
                    for f in fields_in(lhs):
                        kf.add(f)
        elif k == "decl":
            kv.add(e["n"])
        elif k in ("call", "atomic"):
            kc.add(e["id"])
            pt = self._param_types(e) if k == "call" else None
            for ai, a in enumerate(e.get("a", [])):
                a = strip_casts(a)
                if isinstance(a, dict) and a.get("k") == "un" and a.get("op") == "&":
                    v = base_var(a["x"])
                    x = strip_casts(a["x"])
                    if v and isinstance(x, dict) and x.get("k") == "var":
                        if pt is not None and ai < len(pt) and _const_pointee(pt[ai]):
                            continue      # passed as pointer-to-const: the callee only reads it
                        kv.add(v)
            if k == "call":
                for g in self.P.callees(self.fn, e):
                    kfc.update(ms.get(g, ()))

    def _param_types(self, e):
        """Parameter types of the callee(s) of a call event, when known: from the
        function-pointer type of an indirect call, or from the definitions of
        the resolved callees (all must agree); else None."""
        fp = e.get("fp")
        if isinstance(fp, dict):
            return _sig_params(fp.get("t") or "")
        gs = self.P.callees(self.fn, e)
        if not gs:
            return None
        sigs = {tuple(p["t"] for p in g.params) for g in gs}
        if len(sigs) != 1:
            return None
        return list(sigs.pop())

    def _apply_kill(self, atoms, kill):
        if len(kill) == 3:
            kill = kill + (set(),)
        kv, kf, kc, kfc = kill
        if not atoms or not (kv or kf or kc or kfc):
            return atoms
        out = set()
        for a in atoms:
            if self._atom_killed(a, kv, kf, kc, kfc):
                continue
            out.add(a)
        return frozenset(out)

    _tok_cache = {}

    @classmethod
    def _tokens(cls, s):
        r = cls._tok_cache.get(s)
        if r is None:
            import re
            calls = set(re.findall(r"#(\d+)", s))
            if re.search(r"\)#\d+$", s):
                # the recorded result of one execution of a call site: a fact about the
                # past, independent of later changes to the argument objects
                ids, fields = set(), set()
            else:
                ids = set(re.findall(r"[A-Za-z_][A-Za-z_0-9]*", s))
                fields = set(re.findall(r"(?:->|\.)([A-Za-z_][A-Za-z_0-9]*)", s))
            r = (ids, calls, fields)
            cls._tok_cache[s] = r
        return r

    def _atom_killed(self, a, kv, kf, kc, kfc=()):
        import re
        for s in (a[1], a[2]):
            ids, calls, fields = self._tokens(s)
            if kv and (ids - fields) & kv:
                return True
            if kf and fields & kf:
                return True
            if kfc and fields & kfc:
                # a callee may store a field of that name; it cannot reach a by-value
                # local struct of this function unless its address is passed to that
                # call (then the base variable is in kv)
                m = re.match(r"^([A-Za-z_]\w*)(\.\w+)+$", s)
                if not (m and m.group(1) in self._locals()):
                    return True
            if kc and any(int(c) in kc for c in calls):
                return True
        return False

    def must_at(self, bid, idx):
        """Atoms that hold on every feasible path just before event idx of
        block bid.  None if the event is unreachable."""
        IN = self.must_literals()
        ms = maystore_summaries(self.P)
        res = None
        for n in self.nodes_of_block(bid):
            cur = IN[n]
            if cur is None:
                continue
            kv, kf, kc, kfc = set(), set(), set(), set()
            for e in self.fn.blocks[bid].ev[:idx]:
                self._kills(e, kv, kf, kc, ms, kfc)
            cur = self._apply_kill(cur, (kv, kf, kc, kfc))
            res = cur if res is None else (res & cur)
        return res

    # -- generic automaton over all feasible paths ----------------------------
    def run_automaton(self, q0, on_event, on_edge=None, start=None):
        """Explore (node, q).  on_event(q, bid, idx, event, state) -> q' ;
        on_edge(q, literal) -> q'.  Returns dict (node, q) -> parent for path
        reconstruction and the set of (exit node, q)."""
        fn = self.fn
        s0 = (self.start if start is None else start, q0)
        parent = {s0: None}
        work = deque([s0])
        finals = []
        while work:
            cur = work.popleft()
            n, q = cur
            bid, st = self.node_list[n]
            b = fn.blocks[bid]
            for i, e in enumerate(b.ev):
                q = on_event(q, bid, i, e, st)
                st = self.transfer(st, e)
            if bid == fn.exit or b.noret or not self.succ[n]:
                finals.append((cur, q, bid))
                continue
            for m, lit in self.succ[n]:
                q2 = on_edge(q, lit) if on_edge else q
                nxt = (m, q2)
                if nxt not in parent:
                    parent[nxt] = cur
                    work.append(nxt)
        return parent, finals

    def path_to(self, parent, node):
        out = []
        cur = node
        while cur is not None:
            out.append(self.node_list[cur[0]][0])
            cur = parent[cur]
        return list(reversed(out))


_xg_cache = {}


def xgraph(P, fn, track_paths=(), interpret=True, keep_calls=(), keep_vars=()):
    k = (id(P), fn.file, fn.line, fn.name, tuple(sorted(track_paths)), interpret,
         tuple(sorted(keep_calls)), tuple(sorted(keep_vars)))
    g = _xg_cache.get(k)
    if g is None:
        g = XGraph(P, fn, track_paths, interpret, keep_calls, keep_vars)
        _xg_cache[k] = g
    return g
