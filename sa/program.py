"""Program model over the extracted facts: functions, CFGs, call graph."""
import json
import os
import re
from collections import defaultdict

from .build import AnalysisBroken


# --------------------------------------------------------------------------
# expression trees
# --------------------------------------------------------------------------

def is_zero(t):
    """Tree is the integer constant 0 / a null pointer constant."""
    if not isinstance(t, dict):
        return False
    k = t.get("k")
    if k == "int":
        return t.get("v") == "0"
    if k == "cast":
        return is_zero(t.get("x"))
    if "cv" in t:
        return t["cv"] == "0"
    return False


def const_val(t):
    if not isinstance(t, dict):
        return None
    if t.get("k") == "int":
        try:
            return int(t["v"])
        except (KeyError, ValueError):
            return None
    if "cv" in t:
        try:
            return int(t["cv"])
        except ValueError:
            return None
    if t.get("k") == "cast":
        return const_val(t.get("x"))
    return None


def show(t, top=True):
    """Readable C-like rendering of a tree (for reports and canonical keys)."""
    if t is None:
        return "<none>"
    if not isinstance(t, dict):
        return str(t)
    k = t.get("k")
    if k == "int":
        if t.get("mac"):
            return t["mac"][-1] if t["mac"][-1].isupper() or "_" in t["mac"][-1] else t["v"]
        if t.get("enum"):
            return t["enum"]
        return t.get("v", "?")
    if k == "str":
        return '"%s"' % t.get("v", "")
    if k in ("var", "fn", "ref"):
        return t["n"]
    if k == "mem":
        return "%s%s%s" % (show(t["b"], False), "->" if t.get("arrow") else ".", t["f"])
    if k == "call":
        f = t.get("f") or ("(*%s)" % show(t.get("fp"), False))
        return "%s(%s)" % (f, ", ".join(show(a) for a in t.get("a", [])))
    if k == "atomic":
        return "%s(%s)" % (t.get("name", "atomic"), ", ".join(show(a) for a in t.get("a", [])))
    if k == "un":
        if t.get("post"):
            return "%s%s" % (show(t["x"], False), t["op"])
        return "%s%s" % (t["op"], show(t["x"], False))
    if k == "bin":
        s = "%s %s %s" % (show(t["l"], False), t["op"], show(t["r"], False))
        return s if top else "(%s)" % s
    if k == "cond":
        s = "%s ? %s : %s" % (show(t["c"], False), show(t["a"], False), show(t["b"], False))
        return s if top else "(%s)" % s
    if k == "idx":
        return "%s[%s]" % (show(t["b"], False), show(t["i"]))
    if k == "cast":
        return "(%s)%s" % (t.get("t", "?"), show(t["x"], False))
    if k == "sizeof":
        return "sizeof(%s)" % (t.get("of") or show(t.get("x")))
    if k == "init":
        return "{%s}" % ", ".join(show(a) for a in t.get("items", []))
    return "<%s>" % (t.get("c") or k)


def key(t):
    """Canonical key of an lvalue-ish tree: casts removed, no macro names."""
    if t is None:
        return "<none>"
    if not isinstance(t, dict):
        return str(t)
    k = t.get("k")
    if k == "int":
        return t.get("v", "?")
    if "cv" in t and k in ("bin", "un", "cast", "sizeof", "cond"):
        return t["cv"]        # constant-folded by the compiler: (4 + 2 + 1) == 7
    if k == "cast":
        return key(t["x"])
    if k in ("var", "fn", "ref"):
        return t["n"]
    if k == "mem":
        return "%s%s%s" % (key(t["b"]), "->" if t.get("arrow") else ".", t["f"])
    if k == "un":
        if t.get("post"):
            return "(%s%s)" % (key(t["x"]), t["op"])
        return "(%s%s)" % (t["op"], key(t["x"]))
    if k == "bin":
        return "(%s %s %s)" % (key(t["l"]), t["op"], key(t["r"]))
    if k == "idx":
        return "%s[%s]" % (key(t["b"]), key(t["i"]))
    if k == "call":
        f = t.get("f") or ("(*%s)" % key(t.get("fp")))
        return "%s(%s)" % (f, ", ".join(key(a) for a in t.get("a", [])))
    if k == "cond":
        return "(%s ? %s : %s)" % (key(t["c"]), key(t["a"]), key(t["b"]))
    if k == "atomic":
        return "%s(%s)" % (t.get("name", "atomic"), ", ".join(key(a) for a in t.get("a", [])))
    if k == "sizeof":
        return "sizeof(%s)" % (t.get("cv") or t.get("of") or key(t.get("x")))
    if k == "str":
        return '"%s"' % t.get("v", "")
    return "<%s>" % (t.get("c") or k)


def strip_casts(t):
    while isinstance(t, dict) and t.get("k") == "cast":
        t = t["x"]
    return t


def walk(t):
    """All sub-trees of t, pre-order."""
    if not isinstance(t, dict):
        return
    stack = [t]
    while stack:
        n = stack.pop()
        if not isinstance(n, dict):
            continue
        yield n
        for kk in ("b", "x", "l", "r", "c", "i", "fp", "lhs", "rhs"):
            v = n.get(kk)
            if isinstance(v, dict):
                stack.append(v)
        if n.get("k") == "cond":
            pass
        for kk in ("a", "items"):
            v = n.get(kk)
            if isinstance(v, list):
                stack.extend(x for x in v if isinstance(x, dict))
            elif isinstance(v, dict):
                stack.append(v)


def calls_in(t):
    return [n for n in walk(t) if n.get("k") == "call"]


def vars_in(t):
    return {n["n"] for n in walk(t) if n.get("k") == "var"}


def fields_in(t):
    return {n["f"] for n in walk(t) if n.get("k") == "mem"}


def base_var(t):
    """Root variable of an lvalue path, or None."""
    t = strip_casts(t)
    while isinstance(t, dict):
        k = t.get("k")
        if k == "var":
            return t["n"]
        if k == "mem" or k == "idx":
            t = strip_casts(t["b"])
        elif k == "un" and t.get("op") in ("*", "&"):
            t = strip_casts(t["x"])
        elif k == "bin" and t.get("op") in ("+", "-"):
            t = strip_casts(t["l"])
        else:
            return None
    return None


# --------------------------------------------------------------------------
# functions
# --------------------------------------------------------------------------

def _loc_key(l):
    p = l.rsplit(":", 2)
    try:
        return (int(p[1]), int(p[2]))
    except (IndexError, ValueError):
        return (0, 0)


def local_names(jf):
    """Ordered [(kind, name, type, initialiser key or None)] of a function's
    parameters and local declarations (declaration order)."""
    out = [("param", p["n"], p["t"], None) for p in jf["params"]]
    decls = []
    for b in jf["blocks"]:
        for e in b["ev"]:
            if e.get("e") == "decl":
                ik = None
                if "init" in e:
                    cv = const_val(e["init"])
                    ik = str(cv) if cv is not None else "expr"
                decls.append((_loc_key(e["l"]), e["n"], e.get("t", ""), ik))
    seen = set()
    for _, n, t, ik in sorted(decls, key=lambda d: (d[0], d[1])):
        if (n, t) not in seen:      # a declaration visited twice by the CFG (loop bodies)
            seen.add((n, t))
            out.append(("local", n, t, ik))
    return out


_FROZEN_LOCALS = None


def frozen_locals():
    global _FROZEN_LOCALS
    if _FROZEN_LOCALS is None:
        path = os.path.join(os.path.dirname(os.path.dirname(os.path.abspath(__file__))), "tables", "locals.json")
        try:
            _FROZEN_LOCALS = json.load(open(path))
        except (IOError, OSError):
            _FROZEN_LOCALS = {}
    return _FROZEN_LOCALS


def rename_map(current, frozen):
    """current/frozen: ordered [(kind, name, type, init)].  Returns {current
    name -> frozen name} for names that exist only on one side and pair up
    unambiguously (alpha-renaming): first by kind, type and initialiser, then
    by kind and type, each in declaration order and only when both sides have
    the same number of unpaired names in the group.  Names present on both
    sides map to themselves and are left out."""
    cn = {x[1] for x in current}
    fz = {x[1] for x in frozen}
    uc = [x for x in current if x[1] not in fz]
    uf = [x for x in frozen if x[1] not in cn]
    m = {}
    for sig in (lambda x: (x[0], x[2], x[3]), lambda x: (x[0], x[2])):
        groups = {}
        for x in uc:
            if x[1] not in m:
                groups.setdefault(sig(x), [[], []])[0].append(x[1])
        used = set(m.values())
        for x in uf:
            if x[1] not in used:
                groups.setdefault(sig(x), [[], []])[1].append(x[1])
        for _, (a, b) in groups.items():
            if len(a) == len(b):
                for x, y in zip(a, b):
                    m[x] = y
    # parameters are positional: a renamed parameter whose type changed spelling still pairs by position
    cp = [x[1] for x in current if x[0] == "param"]
    fp = [x[1] for x in frozen if x[0] == "param"]
    if len(cp) == len(fp):
        for x, y in zip(cp, fp):
            if x != y and x not in m and x not in fz and y not in cn and y not in m.values():
                m[x] = y
    return m


def _rename_tree(t, m):
    if isinstance(t, dict):
        if t.get("k") == "var" and t.get("kind") in ("param", "local") and t.get("n") in m:
            t["n"] = m[t["n"]]
        for v in t.values():
            if isinstance(v, (dict, list)):
                _rename_tree(v, m)
    elif isinstance(t, list):
        for v in t:
            if isinstance(v, (dict, list)):
                _rename_tree(v, m)


def alpha_normalise(jf):
    """Renames locals/parameters of a function back to the names confirmed on
    the reference tree when the function differs from it only by renaming, so
    that name-anchored rules see through a rename.  Returns the map used."""
    fz = frozen_locals().get("%s:%s" % (jf["file"], jf["name"]))
    if not fz:
        return {}
    cur = local_names(jf)
    fz = [tuple(x) for x in fz]
    if [x[1] for x in cur] == [x[1] for x in fz]:
        return {}
    m = rename_map(cur, fz)
    if not m:
        return {}
    for p in jf["params"]:
        if p["n"] in m:
            p["n"] = m[p["n"]]
    for b in jf["blocks"]:
        for e in b["ev"]:
            if e.get("e") == "decl" and e.get("n") in m:
                e["n"] = m[e["n"]]
        _rename_tree(b, m)
    return m


class Block(object):
    __slots__ = ("id", "ev", "term", "succ", "label", "noret", "preds", "unreach")

    def __init__(self, jb):
        self.id = jb["id"]
        self.ev = jb["ev"]
        self.term = jb.get("term")
        self.label = jb.get("label")
        self.noret = bool(jb.get("noret"))
        self.succ = []
        self.unreach = []
        for s in jb["succ"]:
            if isinstance(s, int):
                self.succ.append(s)
            else:
                self.succ.append(None)
                if isinstance(s, dict):
                    self.unreach.append(s["unreachable"])
        self.preds = []


class Function(object):
    def __init__(self, jf, unit):
        self.name = jf["name"]
        self.file = jf["file"]
        self.line = jf["line"]
        self.endline = jf.get("endline", 0)
        self.static = jf["static"]
        self.ret = jf["ret"]
        self.renamed = jf.get("_renamed") or {}
        self.inlined = jf.get("inlined") or []
        self.params = jf["params"]
        self.unit = unit
        if jf.get("cfg_failed"):
            raise AnalysisBroken("CFG construction failed for %s" % self.name)
        self.entry = jf["entry"]
        self.exit = jf["exit"]
        self.blocks = {b["id"]: Block(b) for b in jf["blocks"]}
        for b in self.blocks.values():
            for s in b.succ:
                if s is not None:
                    self.blocks[s].preds.append(b.id)
        # falling off the end of a function is a return too: make it an explicit event so that
        # exit rules see every way out
        for b in list(self.blocks.values()):
            if b.id != self.exit and self.exit in b.succ and not b.noret:
                if not b.ev or b.ev[-1]["e"] != "ret":
                    if not (b.term is not None and b.term.get("k") == "ReturnStmt"):
                        sret = {"e": "ret", "l": "%s:%d:1" % (self.file, self.endline or self.line), "synthetic": True}
                        if len([x for x in b.succ if x is not None]) == 1:
                            b.ev.append(sret)
                        else:
                            # a branch one arm of which falls off the end: the return belongs to that edge only
                            nid = max(self.blocks) + 1
                            nb = Block({"id": nid, "ev": [sret], "succ": [self.exit]})
                            self.blocks[nid] = nb
                            b.succ = [nid if x == self.exit else x for x in b.succ]
                            self.blocks[self.exit].preds = [x for x in self.blocks[self.exit].preds if x != b.id] + [nid]
                            nb.preds = [b.id]
        self._events = None

    def __repr__(self):
        return "<fn %s %s:%d>" % (self.name, self.file, self.line)

    @property
    def loc(self):
        return "%s:%d" % (self.file, self.line)

    def events(self, kind=None):
        """All (block id, index, event) in block order (not path order)."""
        if self._events is None:
            self._events = [(b.id, i, e) for b in self.blocks.values() for i, e in enumerate(b.ev)]
        if kind is None:
            return self._events
        return [x for x in self._events if x[2]["e"] == kind]

    def calls(self, name=None):
        out = []
        for bid, i, e in self.events("call"):
            if name is None or e.get("f") == name or (isinstance(name, (set, frozenset, tuple, list)) and e.get("f") in name):
                out.append((bid, i, e))
        return out

    def edge_literals(self, bid):
        """For block bid: list of (succ id, literal) where literal is
        (cond tree, polarity) for two-way branches, ('case', cond, value) for
        switches, or None."""
        b = self.blocks[bid]
        t = b.term
        out = []
        if t is None or "cond" not in t:
            for s in b.succ:
                if s is not None:
                    out.append((s, None))
            return out
        k = t["k"]
        if k == "SwitchStmt":
            for s in b.succ:
                if s is None:
                    continue
                lab = self.blocks[s].label or {}
                if "case" in lab:
                    out.append((s, ("case", t["cond"], lab["case"])))
                elif lab.get("default"):
                    out.append((s, ("default", t["cond"], None)))
                else:
                    out.append((s, ("default", t["cond"], None)))
            return out
        if len(b.succ) == 2:
            if b.succ[0] is not None:
                out.append((b.succ[0], (t["cond"], True)))
            if b.succ[1] is not None:
                out.append((b.succ[1], (t["cond"], False)))
            return out
        for s in b.succ:
            if s is not None:
                out.append((s, None))
        return out

    def reachable_blocks(self):
        seen = {self.entry}
        st = [self.entry]
        while st:
            b = st.pop()
            for s in self.blocks[b].succ:
                if s is not None and s not in seen:
                    seen.add(s)
                    st.append(s)
        return seen


class Program(object):
    def __init__(self, facts, info=None):
        self.info = info or {}
        self.functions = {}      # name -> Function (static duplicates: keyed name, list in self.dups)
        self.by_key = {}
        self.records = {}
        self.enums = {}
        self.globals = {}
        self.decls = {}
        self.units = []
        self.all_functions = []
        from . import normalise
        self.normalised = normalise.apply(facts)
        for u in facts:
            self.units.append(u["unit"])
            for jf in u["functions"]:
                k = (jf["file"], jf["line"], jf["name"])
                if k in self.by_key:
                    continue
                f = Function(jf, u["unit"])
                self.by_key[k] = f
                self.all_functions.append(f)
                if f.name in self.functions:
                    # two different static functions with one name in different files
                    prev = self.functions[f.name]
                    if not isinstance(prev, list):
                        prev = [prev]
                    prev.append(f)
                    self.functions[f.name] = prev
                else:
                    self.functions[f.name] = f
            for n, r in u["records"].items():
                self.records.setdefault(n, r)
            for n, v in u["enums"].items():
                self.enums.setdefault(n, v)
            for g in u["globals"]:
                self.globals.setdefault((u["unit"], g["name"]), g)
            for d in u["decls"]:
                self.decls.setdefault(d["name"], d)
        self._cg = None
        self._slots = None

    # -- lookup ------------------------------------------------------------
    def fn(self, name, file=None):
        f = self.functions.get(name)
        if f is None:
            raise AnalysisBroken("anchor function %s not found in the library" % name)
        if isinstance(f, list):
            if file is None:
                raise AnalysisBroken("function name %s is ambiguous (%s)" %
                                     (name, ", ".join(x.file for x in f)))
            for x in f:
                if x.file == file or x.file.endswith(file):
                    return x
            raise AnalysisBroken("anchor function %s not found in %s" % (name, file))
        if file is not None and not (f.file == file or f.file.endswith(file)):
            raise AnalysisBroken("anchor function %s expected in %s, found in %s" % (name, file, f.file))
        return f

    def has_fn(self, name):
        return name in self.functions

    def fns_named(self, name):
        f = self.functions.get(name)
        if f is None:
            return []
        return f if isinstance(f, list) else [f]

    def resolve(self, name, caller):
        """Function definition a direct call to `name` from `caller` refers to."""
        c = self.fns_named(name)
        if not c:
            return None
        if len(c) == 1:
            return c[0]
        for x in c:
            if x.file == caller.file:
                return x
        for x in c:
            if not x.static:
                return x
        return None

    # -- function-pointer slots ------------------------------------------
    def slots(self):
        """(struct, field) -> set of function names stored there anywhere
        (file-scope initialisers of table structs, assignments, and the
        positional tables behind iterator vtables)."""
        if self._slots is not None:
            return self._slots
        slots = defaultdict(set)
        # assignments  x->f = fn  /  x.f = fn
        for f in self.all_functions:
            for bid, i, e in f.events("asg"):
                lhs = strip_casts(e["lhs"])
                rhs = strip_casts(e["rhs"])
                if isinstance(rhs, dict) and rhs.get("k") == "un" and rhs.get("op") == "&":
                    rhs = strip_casts(rhs["x"])
                if isinstance(lhs, dict) and lhs.get("k") == "mem" and isinstance(rhs, dict) and rhs.get("k") == "fn":
                    slots[(lhs["s"], lhs["f"])].add(rhs["n"])
        # file-scope initialisers: positional against the record's field list
        for (unit, name), g in self.globals.items():
            init = g.get("init")
            if not isinstance(init, dict) or init.get("k") != "init":
                continue
            rec = re.sub(r"^(static |const |struct )+", "", g["t"]).strip()
            rec = rec.replace("const ", "").strip()
            r = self.records.get(rec) or self.records.get(rec.replace("_t", "_s"))
            if r is None:
                continue
            fields = r["fields"]
            for idx, item in enumerate(init["items"]):
                item = strip_casts(item)
                if isinstance(item, dict) and item.get("k") == "un" and item.get("op") == "&":
                    item = strip_casts(item["x"])
                if isinstance(item, dict) and item.get("k") == "fn" and idx < len(fields):
                    slots[(rec, fields[idx]["f"])].add(item["n"])
        # x->f = <parameter k of G>  : the slot may hold whatever any caller passes as
        # argument k of G (callback registration: cleanups, work items, deleters, savers)
        passed = defaultdict(set)          # (G file, G name, k) -> function names passed

        def gkey(caller, name):
            g = self.resolve(name, caller)
            return (g.file, g.name) if g is not None else ("<extern>", name)
        for f in self.all_functions:
            for bid, i, e in f.events("call"):
                if "f" not in e:
                    continue
                for k, a in enumerate(e.get("a", [])):
                    a = strip_casts(a)
                    if isinstance(a, dict) and a.get("k") == "un" and a.get("op") == "&":
                        a = strip_casts(a["x"])
                    if isinstance(a, dict) and a.get("k") == "fn":
                        passed[gkey(f, e["f"]) + (k,)].add(a["n"])
        # parameters forwarded to another registering function
        changed = True
        rounds = 0
        while changed and rounds < 6:
            changed = False
            rounds += 1
            for f in self.all_functions:
                pn = [p["n"] for p in f.params]
                for bid, i, e in f.events("call"):
                    if "f" not in e:
                        continue
                    for k, a in enumerate(e.get("a", [])):
                        a = strip_casts(a)
                        if isinstance(a, dict) and a.get("k") == "var" and a.get("kind") == "param" and a["n"] in pn:
                            src = passed.get((f.file, f.name, pn.index(a["n"])), set())
                            if not src:
                                continue
                            dst = passed[gkey(f, e["f"]) + (k,)]
                            if not src <= dst:
                                dst |= src
                                changed = True
        for f in self.all_functions:
            pn = [p["n"] for p in f.params]
            for bid, i, e in f.events("asg"):
                lhs = strip_casts(e["lhs"])
                rhs = strip_casts(e["rhs"])
                if (isinstance(lhs, dict) and lhs.get("k") == "mem" and isinstance(rhs, dict)
                        and rhs.get("k") == "var" and rhs.get("kind") == "param" and rhs["n"] in pn):
                    for n in passed.get((f.file, f.name, pn.index(rhs["n"])), ()):
                        slots[(lhs["s"], lhs["f"])].add(n)
        self.passed = passed
        self._slots = slots
        return slots

    def record_of_type(self, tname):
        tname = tname.replace("const ", "").replace("struct ", "").replace("*", "").strip()
        if tname in self.records:
            return tname
        return None

    # -- call graph ---------------------------------------------------------
    def callees(self, f, e):
        """Possible callee Function objects of call event e inside f."""
        if "f" in e:
            g = self.resolve(e["f"], f)
            return [g] if g is not None else []
        fp = strip_casts(e.get("fp"))
        if isinstance(fp, dict) and fp.get("k") == "un" and fp.get("op") == "*":
            fp = strip_casts(fp["x"])
        out = []
        if isinstance(fp, dict) and fp.get("k") == "var" and fp.get("kind") == "param":
            self.slots()
            pn = [p["n"] for p in f.params]
            if fp["n"] in pn:
                for n in sorted(self.passed.get((f.file, f.name, pn.index(fp["n"])), ())):
                    g = self.resolve(n, f)
                    if g is not None:
                        out.append(g)
            return out
        if isinstance(fp, dict) and fp.get("k") == "mem":
            s = fp["s"]
            names = set(self.slots().get((s, fp["f"]), ()))
            # typedef name vs struct tag name
            for (rs, rf), v in self.slots().items():
                if rf == fp["f"] and rs != s and _same_record(rs, s):
                    names |= v
            for n in sorted(names):
                g = self.resolve(n, f)
                if g is not None:
                    out.append(g)
        return out

    def callgraph(self):
        if self._cg is not None:
            return self._cg
        cg = {}
        for f in self.all_functions:
            outs = []
            for bid, i, e in f.events("call"):
                for g in self.callees(f, e):
                    outs.append((g, e))
            # functions passed as arguments (callbacks)
            cg[f] = outs
        self._cg = cg
        return cg

    def callers_of(self, name):
        """[(caller Function, block, idx, event)] of direct calls to name."""
        out = []
        for f in self.all_functions:
            for bid, i, e in f.events("call"):
                if e.get("f") == name:
                    out.append((f, bid, i, e))
        return out

    def reachable_from(self, roots, via_callbacks=True):
        cg = self.callgraph()
        seen = set()
        st = list(roots)
        while st:
            f = st.pop()
            if f in seen:
                continue
            seen.add(f)
            for g, e in cg.get(f, ()):
                if g not in seen:
                    st.append(g)
            if via_callbacks:
                for bid, i, e in f.events("call"):
                    for a in e.get("a", []):
                        a = strip_casts(a)
                        if isinstance(a, dict) and a.get("k") == "un" and a.get("op") == "&":
                            a = strip_casts(a["x"])
                        if isinstance(a, dict) and a.get("k") == "fn":
                            g = self.resolve(a["n"], f)
                            if g is not None and g not in seen:
                                st.append(g)
        return seen


def _same_record(a, b):
    def norm(x):
        return re.sub(r"_(s|t)$", "", x)
    return norm(a) == norm(b)
