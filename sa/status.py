"""T4: status domain and status-discipline (no dropped status / parse result)."""
from .program import calls_in, const_val, key, strip_casts, vars_in, walk

STATUS_MACROS = {"LDB_NOTFOUND", "LDB_CORRUPTION", "LDB_NOSUPPORT", "LDB_INVALID", "LDB_IOERR",
                 "LDB_ENOENT", "LDB_ENOMEM", "LDB_EINVAL", "LDB_EEXIST", "LDB_ENOLCK"}
SEED_STATUS = {"ldb_system_error"}


def _name(e):
    if "f" in e:
        return e["f"]
    for m in e.get("mac", ()):
        return m
    return None


def _is_status_macro(t):
    t = strip_casts(t)
    if isinstance(t, dict) and t.get("k") == "int":
        for m in t.get("mac", ()):
            if m in STATUS_MACROS:
                return True
    return False


def status_functions(P):
    """Fixpoint: int functions one of whose returns derives from a non-OK status
    macro, ldb_system_error() or another status function (through locals)."""
    cache = getattr(P, "_status_fns", None)
    if cache is not None:
        return cache
    status = set(SEED_STATUS)
    changed = True
    while changed:
        changed = False
        for f in P.all_functions:
            if f.name in status or not f.ret.startswith("int"):
                continue
            # locals that may hold a status
            svars = set()
            grew = True
            while grew:
                grew = False
                for b, i, e in f.events():
                    tgt, rhs = None, None
                    if e["e"] == "asg" and e["op"] == "=":
                        l = strip_casts(e["lhs"])
                        if isinstance(l, dict) and l.get("k") == "var":
                            tgt, rhs = l["n"], e["rhs"]
                    elif e["e"] == "decl" and "init" in e:
                        tgt, rhs = e["n"], e["init"]
                    if tgt is None or tgt in svars:
                        continue
                    if _derives(rhs, status, svars):
                        svars.add(tgt)
                        grew = True
            for b, i, e in f.events("ret"):
                if "x" in e and _derives(e["x"], status, svars):
                    status.add(f.name)
                    changed = True
                    break
    P._status_fns = status
    return status


def _derives(t, status, svars):
    t = strip_casts(t)
    if not isinstance(t, dict):
        return False
    if _is_status_macro(t):
        return True
    k = t.get("k")
    if k == "call":
        n = t.get("f") or (t.get("mac") or [None])[0]
        return n in status
    if k == "var":
        return t["n"] in svars
    if k == "cond":
        return _derives(t["a"], status, svars) or _derives(t["b"], status, svars)
    if k == "bin" and t.get("op") == "=":
        return _derives(t["r"], status, svars)
    return False


PARSE_NAMES = ("ldb_parse_filename", "ldb_decode_int", "ldb_join", "ldb_dirname", "ldb_path_absolute",
               "snappy_decode", "snappy_decode_size", "ldb_pkey_import", "ldb_edit_import", "ldb_handle_import",
               "ldb_footer_import", "ldb_level_slurp")


def parse_functions(P):
    """0/1 decoders and builders whose 0 means 'nothing valid was produced'."""
    out = set()
    for f in P.all_functions:
        if not f.ret.startswith("int"):
            continue
        n = f.name
        if n in PARSE_NAMES or n.endswith("_slurp") or (n.endswith("_read") and n.startswith("ldb_") and
                                                         n not in ("ldb_rfile_read", "ldb_buffer_read") or n == "ldb_buffer_read") \
                or (n.endswith("_filename") and n.startswith("ldb_") and n != "ldb_parse_filename") or n.endswith("_import"):
            out.add(n)
    out.discard("ldb_rfile_read")
    return out


def _live_after(fn, xg, b, i, var):
    """Is local `var` read on some path after event (b, i) before being overwritten?"""
    blk = fn.blocks[b]
    for e in blk.ev[i + 1:]:
        k = e["e"]
        if k == "asg":
            l = strip_casts(e["lhs"])
            if var in vars_in(e["rhs"]):
                return True
            if isinstance(l, dict) and l.get("k") == "var" and l["n"] == var:
                if e["op"] != "=":
                    return True
                return False
            if var in vars_in(e["lhs"]):
                return True
        elif k == "decl":
            if var in vars_in(e.get("init")):
                return True
        elif k in ("call", "atomic"):
            for a in e.get("a", []):
                if var in vars_in(a):
                    return True
        else:
            for kk in ("x", "b", "i", "lhs", "rhs"):
                if var in vars_in(e.get(kk)):
                    return True
    if blk.term is not None and "cond" in blk.term and var in vars_in(blk.term["cond"]):
        return True
    for s in blk.succ:
        if s is not None and var in xg.live[s]:
            return True
    return False


def dropped_results(P, fn, names, xg):
    """[(b, i, event, how)] call sites in fn of functions in `names` whose
    result is dropped: discarded, cast to void, or stored into a local that is
    dead (overwritten / never read) afterwards."""
    out = []
    for b, i, e in fn.events("call"):
        n = _name(e)
        if n not in names:
            continue
        use = e.get("use")
        if use in ("discard", "voidcast"):
            out.append((b, i, e, "result %s" % ("discarded" if use == "discard" else "cast to void")))
            continue
        if use in ("assign", "init"):
            # find the consuming asg/decl event right after
            tgt = None
            for j in range(i + 1, len(fn.blocks[b].ev)):
                x = fn.blocks[b].ev[j]
                if x["e"] == "asg" and any(c.get("id") == e["id"] for c in calls_in(x["rhs"])):
                    l = strip_casts(x["lhs"])
                    if isinstance(l, dict) and l.get("k") == "var" and l.get("kind") in ("local", "param"):
                        tgt = (j, l["n"])
                    break
                if x["e"] == "decl" and any(c.get("id") == e["id"] for c in calls_in(x.get("init"))):
                    tgt = (j, x["n"])
                    break
            if tgt is not None and tgt[1] not in xg.escaped:
                if not _live_after(fn, xg, b, tgt[0], tgt[1]) and not _result_used_elsewhere(fn, xg, e, b, tgt[0]):
                    out.append((b, i, e, "stored into `%s`, which is overwritten or never read afterwards" % tgt[1]))
    return out


def _result_used_elsewhere(fn, xg, call, b0, j0):
    """After normalisation a temporary that only carried a call result is
    replaced by a reference to that result (normalise.inline_new_locals): the
    result is consumed where that reference is consumed."""
    cid = call["id"]
    for blk in fn.blocks.values():
        if blk.term is not None and any(c.get("id") == cid for c in calls_in(blk.term.get("cond"))):
            # the call event itself sits in the block of its own condition; only a reference from another block counts
            if not any(x is call for x in blk.ev):
                return True
        for j, x in enumerate(blk.ev):
            if x is call or (blk.id == b0 and j == j0):
                continue
            if x["e"] == "asg" and any(c.get("id") == cid for c in calls_in(x["rhs"])):
                l = strip_casts(x["lhs"])
                if not (isinstance(l, dict) and l.get("k") == "var" and l.get("kind") in ("local", "param")):
                    return True
                if l["n"] in xg.escaped or _live_after(fn, xg, blk.id, j, l["n"]):
                    return True
            elif x["e"] in ("ret", "void") and any(c.get("id") == cid for c in calls_in(x.get("x"))):
                if x["e"] == "ret":
                    return True
            elif x["e"] == "call" and any(c.get("id") == cid for a in x.get("a", []) for c in calls_in(a)):
                return True
    return False


def _reads_var(e, v):
    for kk, val in e.items():
        if kk in ("l", "e", "mac", "t", "n"):
            continue
        if kk == "lhs" and e.get("e") == "asg" and e.get("op") == "=":
            l = strip_casts(val)
            if isinstance(l, dict) and l.get("k") == "var":
                continue
        st = [val]
        while st:
            n = st.pop()
            if isinstance(n, dict):
                if n.get("k") == "var" and n.get("n") == v:
                    return True
                st.extend(x for x in n.values() if isinstance(x, (dict, list)))
            elif isinstance(n, list):
                st.extend(n)
    return False


def overwritten_unread(P, f, names):
    """[(b, i, event, where)]: `v = <status call>` into a plain local after
    which some path reaches another plain assignment to v (possibly the same
    one, round a loop) without v having been read in between: the first
    status is lost on that path, whatever it was."""
    out = []
    for b, i, e in f.events("asg"):
        r = strip_casts(e["rhs"])
        l = strip_casts(e["lhs"])
        if not (isinstance(r, dict) and r.get("k") == "call" and _name(r) in names and isinstance(l, dict) and
                l.get("k") == "var" and l.get("kind") == "local" and e["op"] == "="):
            continue
        v = l["n"]
        seen = set()
        st = [(b, i + 1)]
        bad = None
        while st and bad is None:
            bb, ii = st.pop()
            blk = f.blocks[bb]
            stop = False
            for j in range(ii, len(blk.ev)):
                x = blk.ev[j]
                if _reads_var(x, v):
                    stop = True
                    break
                if x["e"] == "asg" and x["op"] == "=" and key(x["lhs"]) == v:
                    bad = x["l"]
                    stop = True
                    break
            if stop:
                continue
            t = blk.term
            if t is not None and "cond" in t and v in vars_in(t["cond"]):
                continue
            for s in blk.succ:
                if s is not None and s not in seen:
                    seen.add(s)
                    st.append((s, 0))
        if bad is not None:
            out.append((b, i, e, bad))
    return out
