#!/usr/bin/env python3
"""make_prompts.py <wave-tag> [Cnn ...]: writes /tmp/agent-<tag>-cNN.txt for seed sub-agents (property text from
properties.jsonl, the list of ideas already kept under seeded/ for that property) and prints the worktree paths to
create.  The sub-agent gets nothing else from /verif."""
import glob, json, os, sys
HERE = os.path.dirname(os.path.dirname(os.path.abspath(__file__)))
tag = sys.argv[1]
want = [x.upper() for x in sys.argv[2:]]
tmpl = open(os.path.join(HERE, "tools", "prompts", "seed-template.txt")).read()
for line in open(os.path.join(HERE, "properties.jsonl")):
    d = json.loads(line)
    pid = d["id"]
    if want and pid not in want:
        continue
    prop = "%s — %s\n\nStatement: %s\n\nQuantifier: %s\n" % (pid, d["title"], d["statement"], d["quantifier"]["text"])
    ideas = []
    for sd in sorted(glob.glob(os.path.join(HERE, "seeded", pid.lower() + "-*"))):
        try:
            m = json.load(open(os.path.join(sd, "meta.json")))
        except Exception:
            continue
        ideas.append("- " + (m.get("summary") or "").strip().replace("\n", " ")[:200])
    avoid = ""
    if ideas:
        avoid = ("Ideas that were ALREADY used by others for this property - do NOT repeat them or close variants; find a "
                 "different mechanism in a different part of the code:\n" + "\n".join(ideas) + "\n\n")
    wt = "/tmp/w%s-%s" % (tag, pid.lower())
    t = tmpl.replace("@@PROPERTY@@", prop).replace("@@AVOID@@", avoid).replace("@@WT@@", wt).replace("@@ID@@", pid)
    out = "/tmp/agent-%s-%s.txt" % (tag, pid.lower())
    open(out, "w").write(t)
    print(out, wt)
