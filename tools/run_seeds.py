#!/usr/bin/env python3
"""Runs every kept seeded change (seeded/<id>/patch.diff) against the checks,
on a scratch copy of /repo (never /repo itself), and records which check and
rule reports it in seeded/<id>/detection.json."""
import json, os, shutil, subprocess, sys, tempfile
HERE = os.path.dirname(os.path.dirname(os.path.abspath(__file__)))
sys.path.insert(0, HERE)
from sa.claims import CLAIMS

def run(seed, props):
    sd = os.path.join(HERE, "seeded", seed)
    d = tempfile.mkdtemp(prefix="lcdb-seed.", dir="/tmp")
    try:
        for sub in ("src", "include"):
            shutil.copytree(os.path.join("/repo", sub), os.path.join(d, sub))
        r = subprocess.run(["patch", "-p1", "-s", "-d", d, "-i", os.path.join(sd, "patch.diff")],
                           capture_output=True, text=True)
        if r.returncode != 0:
            return {"error": "patch does not apply: " + r.stdout + r.stderr}
        env = dict(os.environ, LCDB_REPO=d, LCDB_SCRATCH_OF="/repo")
        out = {}
        for p in props:
            r = subprocess.run([sys.executable, "-m", "sa.core", p, "--no-evidence"], cwd=HERE, env=env,
                               capture_output=True, text=True)
            rules = sorted({l.split("rule=")[1].split()[0] + "/" + l.split("instance=")[1].split()[0]
                            for l in r.stdout.splitlines() if "violated: rule=" in l})
            out[p] = {"exit": r.returncode, "rules": rules}
        return out
    finally:
        shutil.rmtree(d, ignore_errors=True)

def main():
    only = sys.argv[1:]
    seeds = sorted(os.listdir(os.path.join(HERE, "seeded")))
    allp = sorted(CLAIMS)
    from concurrent.futures import ThreadPoolExecutor
    todo = [s for s in seeds if not only or s in only]
    with ThreadPoolExecutor(5) as ex:
        results = list(ex.map(lambda s: run(s, allp), todo))
    for s, res in zip(todo, results):
        meta = json.load(open(os.path.join(HERE, "seeded", s, "meta.json")))
        det = {p: v for p, v in res.items() if isinstance(v, dict) and v.get("exit") == 1}
        broken = {p: v for p, v in res.items() if isinstance(v, dict) and v.get("exit") == 2}
        rec = {"seed": s, "property": meta.get("property"), "detected_by": det, "analysis_broken": sorted(broken),
               "checks_run": allp, "own_property_detects": meta.get("property") in det}
        json.dump(rec, open(os.path.join(HERE, "seeded", s, "detection.json"), "w"), indent=1)
        print("%-40s %-4s %s %s" % (s, meta.get("property"), "DETECTED" if det else "missed",
                                      {p: v["rules"] for p, v in det.items()}))
if __name__ == "__main__":
    main()
