#!/usr/bin/env python3
"""Regenerates the seeds table of DESIGN.md (between the SEEDS markers) from
seeded/<id>/meta.json, detection.json and the notes below."""
import json, os, re, sys
HERE = os.path.dirname(os.path.dirname(os.path.abspath(__file__)))
# seeds that no check reported when they arrived; the rule named was added afterwards
MISSED_FIRST = {
    "c07-saved-value-released-after-copy": "T12-dbiter-composition/saved-value-kept",
    "c11-has-drops-read-options": "T2-read-options-forwarded",
    "c16-foreign-filter-block-loaded": "T2-filter-name-match",
    "c17-deleted-set-compare-truncated": "T8-deleted-set-order",
    "c18-reverse-scan-stuck-on-bad-key": "T1-decoder-progress over the DB-iterator scans (C07's composition table saw it; C18 did not)",
    "c01-level0-closure-no-restart": "T2-level0-closure",
    "c02-waiter-sync-flag-dropped": "T6-waiter-sync-flag",
    "c11-zero-record-silently-skipped": "T1-log-no-silent-skip",
    "c04-zero-record-continue": "(same mechanism as c11-zero-record; arrived after the rule existed)",
    "c12-read-error-becomes-notfound": "T1-read-error-surfaces",
    "c15-zero-type-any-length-skipped": "T2-log-silent-drop-guards",
    "c16-filter-empty-key-fast-path": "T2-filter-empty-only-without-keys",
    "c16-snappy-literal-257": "T2-snappy-literal-length",
    "c18-decode-entry-32bit-sum": "decode_entry:sum-in-64-bits",
    "c20-backup-into-existing-dir": "T2-backup-fresh-dir",
    "c06-drop-ignores-middle-snapshots": "T2-compaction-drop (vacuity guard 'exactly two drop sites' made it exit 2; loosened)",
    "c06-file-selection-ignores-sequence": "T6-lookup-key",
    "c08-follower-acked-before-append": "T1-group-ack-after-append",
    "c14-seek-compaction-skips-level0-closure": "T2-level0-closure/pick_compaction",
    "c14-level0-expand-no-restart": "(reported by C01's T2-level0-closure only; rule now shared with C14)",
    "c17-reused-manifest-writer-offset": "(reported by C03's T6-log-reuse-offset only; rule now shared with C17)",
    "c18-mmap-pread-bounds-wrap": "T2-decoder-guard row for the mapped read in ldb_rfile_pread0",
    "c18-snappy-literal-copy16": "T2-decoder-guard/decode_blocks:copy (every copy bounded by zn / xn, whatever its length expression)",
    "c19-repair-log-table-first-sequence": "T5-repair-table-registration, T6-repair-counters/table-max-sequence",
    "c16-separator-equals-limit": "T2-separator-contract",
    "c04-failed-group-leaves-tmp-batch": "T1-group-scratch-reset",
    "c01-get-range-upper-bound-by-smallest": "T8-range-fold",
    "c10-approximate-offset-unpins-table-early": "T10-pinning/table-used-while-pinned",
    "c15-bad-record-keeps-fragment-state": "T2-reassembly-state/bad-record-resets-always",
    "c16-filter-offset-without-trailer": "T6-filter-offset",
    "c17-rename-reports-dirsync-failure": "T1-current-commit-point",
    "c20-lock-table-check-and-put-split": "T3d-lockfile-section",
    "c20-destroy-lost-guard-wrong-dir": "T5-destroy-scope/lost-dir-is-not-a-database",
    "c19-repair-skips-logs-below-manifest": "T1-repair-logs",
    "c07-add-iterators-skips-deepest-level": "T2-all-levels",
    "c06-filter-skips-repeated-user-keys": "T1-filter-every-key",
    "c05-empty-batch-record-rejected": "T2-replay-record-size made exact (`size >= 12`, not merely implied)",
    "c03-short-write-treated-as-complete": "T1-env-write/advance-by-result",
    "c01-bloom-probes-with-configured-k": "T6-bloom-probes/stored-k",
    "c19-repair-raw-filter-policy": "T6-policy-wrapping",
    "c15-short-read-ends-log": "T1-env-read/short-read-continues",
    "c12-read-error-after-partial-data-is-short-read": "T1-env-read/error-is-error",
    "c12-twoiter-status-masks-latched-error": "T4-iterator-status-read/twoiter_status:child-only-if-error",
    "c07-numiter-value-static-buffer": "T5-static-locals",
    "c17-apply-overwrites-prev-log-number": "T2-apply-edit-numbers",
    "c13-open-schedules-before-gc": "T1-gc-before-background",
    "c11-merger-status-keeps-last-child": "T4-status-not-overwritten (a status is looked at before its variable is assigned again, on every path)",
    "c18-current-empty-wraps-length": "(exit 2 at first: the C18 row matched the index expression by text; the row now matches any read of the buffer)",
    "c10-compact-reads-version-unlocked": "T10-pinning/version-pointer (a copy of versions->current is used only under the mutex or after a ref)",
    "c09-recover-skips-finalize": "T1-finalized-before-install",
    "c15-writer-init-length-cast-to-int": "T2-log-reuse-offset/writer_init:64-bit",
    "c20-parse-filename-prefix-suffixes": "T5-parse-exact",
    "c11-twoiter-saves-incoming-status": "T5-twoiter-replace/who-may-replace",
    "c07-capi-comparator-inherits-bytewise-hooks": "T6-capi-comparator",
    "c10-property-reads-memtables-unlocked": "T10-pinning/version-pointer extended to copies of db->mem / db->imm",
    "c17-new-manifest-opened-for-append": "T1-manifest-fresh-file (exit 2 at first: the rule treated the creating call as an anchor)",
    "c17-manifest-damage-forgiven-without-paranoid": "T2-manifest-checksum/reporter-status",
    "c16-empty-filter-not-given-to-policy": "T2-filter-fail-open/policy-judges-empty-filter (guard made exact)",
    "c11-twoiter-reposition-clears-latched-status": "T4-iterator-status-read/twoiter:latched-status-never-cleared",
    "c09-open-does-not-schedule-compaction": "T11-work-scheduled",
    "c07-dbiter-skip-bytewise-equal": "T12-dbiter-composition (db_iter.c tables were added after this seed arrived)",
    "c01-manual-level0-truncation": "T2-level0-closure/manual-truncation",
    "c03-current-unlinked-before-rename": "T1-current-replaced-atomically (C02/C20 reported it through T2-remove-on-failure-only; C03 did not)",
    "c06-has-drops-snapshot": "(reported by C11's T2-read-options-forwarded only; rule now shared with C06)",
    "c08-tombstone-dropped-above-snapshot": "(reported by C01/C04/C06's T2-compaction-drop only; rule now shared with C08)",
    "c15-crc-mismatch-trusts-length-at-eof": "T2-crc-mismatch-drops-block",
    "c14-manual-level0-cap": "(same mechanism as c01-manual-level0-truncation, found independently by a second sub-agent; arrived before the rule existed)",
}
rows = []
for s in sorted(os.listdir(os.path.join(HERE, "seeded"))):
    d = os.path.join(HERE, "seeded", s)
    try:
        meta = json.load(open(os.path.join(d, "meta.json")))
    except Exception:
        meta = {}
    try:
        det = json.load(open(os.path.join(d, "detection.json")))
    except Exception:
        det = {}
    prop = meta.get("property", "?")
    by = det.get("detected_by", {})
    own = prop in by
    rules = sorted({r.split("/")[0] for v in by.values() for r in v.get("rules", [])})
    needs = (meta.get("needs_to_manifest") or "").replace("\n", " ").replace("|", "/")
    needs = needs[:110] + ("…" if len(needs) > 110 else "")
    note = ""
    if s in MISSED_FIRST:
        note = "**missed first**; added " + MISSED_FIRST[s]
    elif not own and by:
        note = "own check silent at first; sibling rules now shared"
    rows.append("| %s | %s | %s | %s | %s |" % (s, prop, needs, ", ".join("%s" % p for p in sorted(by)) + (" — " + ", ".join(rules[:3]) if rules else ""), note))
hdr = "| seed | property | needs (from the sub-agent's meta.json) | reported by (checks — rules) | note |\n|---|---|---|---|---|\n"
table = hdr + "\n".join(rows) + "\n"
p = os.path.join(HERE, "DESIGN.md")
s = open(p).read()
if "<!-- SEEDS-BEGIN -->" in s:
    s = re.sub(r"<!-- SEEDS-BEGIN -->.*?<!-- SEEDS-END -->", "<!-- SEEDS-BEGIN -->\n" + table + "<!-- SEEDS-END -->", s, flags=re.S)
    open(p, "w").write(s)
    print("DESIGN.md seeds table updated: %d seeds" % len(rows))
else:
    print(table)
