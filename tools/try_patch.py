#!/usr/bin/env python3
"""try_patch.py <patch.diff> [Cnn ...]: apply a patch to a scratch copy of /repo and run the named checks
(default: all) on it; prints exit code and violated rules per check.  Nothing is written to evidence/."""
import os, shutil, subprocess, sys, tempfile
from concurrent.futures import ThreadPoolExecutor
HERE = os.path.dirname(os.path.dirname(os.path.abspath(__file__)))
sys.path.insert(0, HERE)
from sa.claims import CLAIMS

def main():
    patch = sys.argv[1]
    props = [p.upper() for p in sys.argv[2:]] or sorted(CLAIMS)
    d = tempfile.mkdtemp(prefix="lcdb-try.", dir="/tmp")
    try:
        for sub in ("src", "include"):
            shutil.copytree(os.path.join("/repo", sub), os.path.join(d, sub))
        r = subprocess.run(["patch", "-p1", "-s", "-d", d, "-i", os.path.abspath(patch)], capture_output=True, text=True)
        if r.returncode != 0:
            print("patch does not apply:", r.stdout, r.stderr)
            return 2
        env = dict(os.environ, LCDB_REPO=d, LCDB_SCRATCH_OF="/repo")
        # warm the fact cache once
        subprocess.run([sys.executable, "-m", "sa.core", props[0], "--no-evidence"], cwd=HERE, env=env, capture_output=True, text=True)

        def one(p):
            r = subprocess.run([sys.executable, "-m", "sa.core", p, "--no-evidence"], cwd=HERE, env=env, capture_output=True, text=True)
            rules = sorted({l.split("rule=")[1].split()[0] + "/" + l.split("instance=")[1].split()[0]
                            for l in r.stdout.splitlines() if "violated: rule=" in l})
            return p, r.returncode, rules, [l for l in r.stdout.splitlines() if "BROKEN" in l][:1]
        with ThreadPoolExecutor(8) as ex:
            for p, rc, rules, br in ex.map(one, props):
                if rc != 0:
                    print("%s exit=%d %s %s" % (p, rc, rules, br))
        print("done: %d checks" % len(props))
    finally:
        shutil.rmtree(d, ignore_errors=True)
    return 0
sys.exit(main())
