#!/bin/bash
# verify_seed.sh <worktree> <seed-subdir>  : confirms a seeded change
#   (a) pristine + demo passes, (b) patched + demo fails, (c) patched passes the full suite
# Writes <worktree>/<seed-subdir>/verify.log and prints a one-line verdict.
WT=$1; SD=${2:-seed}
cd "$WT" || exit 2
LOG="$WT/$SD/verify.log"; : > "$LOG"
export TEST_TMPDIR="$WT/_tmp"; mkdir -p "$TEST_TMPDIR"
git checkout -q -- . 2>>"$LOG"
build() { cmake -G Ninja -S . -B _build -DCMAKE_BUILD_TYPE=RelWithDebInfo -DCMAKE_C_FLAGS=-Wno-error >>"$LOG" 2>&1 && cmake --build _build -j16 >>"$LOG" 2>&1; }
build || { echo "VERDICT build-pristine-failed"; exit 1; }
( cd "$SD" && timeout 1200 bash ./run.sh ) >>"$LOG" 2>&1; A=$?
git apply "$SD/patch.diff" >>"$LOG" 2>&1 || { echo "VERDICT patch-does-not-apply"; exit 1; }
build || { git checkout -q -- .; echo "VERDICT build-patched-failed"; exit 1; }
( cd "$SD" && timeout 1200 bash ./run.sh ) >>"$LOG" 2>&1; B=$?
ctest --test-dir _build -j8 --timeout 900 --repeat until-pass:3 >"$WT/$SD/ctest.log" 2>&1; C=$?
tail -5 "$WT/$SD/ctest.log" >>"$LOG"
git checkout -q -- .
rm -rf _build "$TEST_TMPDIR"
echo "VERDICT pristine_demo_rc=$A patched_demo_rc=$B patched_ctest_rc=$C" | tee -a "$LOG"
