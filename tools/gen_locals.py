#!/usr/bin/env python3
"""Freezes the parameter and local-variable names of every library function
on the reference tree (tables/locals.json).  sa/program.py uses the table to
see through a pure renaming of locals (alpha-normalisation): rules are
anchored on the names confirmed here.  Regenerate only after re-confirming
the rule tables against a new reference tree."""
import json, os, sys
HERE = os.path.dirname(os.path.dirname(os.path.abspath(__file__)))
sys.path.insert(0, HERE)
from sa import build, program

def main():
    facts, info = build.extract("real")
    out = {}
    for u in facts:
        for jf in u["functions"]:
            k = "%s:%s" % (jf["file"], jf["name"])
            if k not in out:
                out[k] = program.local_names(jf)
    json.dump(out, open(os.path.join(HERE, "tables", "locals.json"), "w"), indent=0, sort_keys=True)
    print("froze locals of %d functions" % len(out))
main()
