// lcdbfacts - fact extractor for the lcdb static checkers (libTooling, clang 14).
//
// For every function definition located under the repository root it emits
// the clang CFG (BuildOptions::setAllAlwaysAdd, so every sub-expression is an
// element in evaluation order) as JSON: blocks, successor edges, terminator
// conditions as small expression trees, and one normalised "event" per
// interesting element (calls, assignments, member accesses, atomics, returns,
// shifts/divisions, subscripts, explicit void casts).  Per unit it also emits
// record layouts, enumerators and file-scope initialisers (function-pointer
// tables).  No rule lives here: the rules are in /verif/sa (Python).
//
// usage: lcdbfacts <repo-root> <out.json> <source.c> -- <compile flags...>

#include "clang/AST/ASTConsumer.h"
#include "clang/AST/ASTContext.h"
#include "clang/AST/Expr.h"
#include "clang/AST/ParentMap.h"
#include "clang/AST/RecursiveASTVisitor.h"
#include "clang/Analysis/CFG.h"
#include "clang/Frontend/CompilerInstance.h"
#include "clang/Frontend/FrontendAction.h"
#include "clang/Lex/Lexer.h"
#include "clang/Tooling/CompilationDatabase.h"
#include "clang/Tooling/Tooling.h"
#include "llvm/Support/JSON.h"
#include "llvm/Support/raw_ostream.h"

#include <map>
#include <set>
#include <string>

using namespace clang;
namespace json = llvm::json;

static std::string gRoot;
static std::string gOut;
static bool gFailed = false;

namespace {

class Extractor {
public:
  Extractor(ASTContext &C) : Ctx(C), SM(C.getSourceManager()), LO(C.getLangOpts()) {}

  ASTContext &Ctx;
  SourceManager &SM;
  const LangOptions &LO;

  // ---- locations -------------------------------------------------------
  bool inRepo(SourceLocation L, std::string *rel = nullptr) {
    if (L.isInvalid())
      return false;
    SourceLocation E = SM.getExpansionLoc(L);
    PresumedLoc P = SM.getPresumedLoc(E);
    if (P.isInvalid())
      return false;
    std::string f = P.getFilename();
    std::string abs = f;
    if (!f.empty() && f[0] != '/') {
      llvm::SmallString<256> p(f);
      SM.getFileManager().makeAbsolutePath(p);
      abs = std::string(p.str());
    }
    // normalise "/repo/_build/../src/x.c"
    llvm::SmallString<256> p(abs);
    llvm::sys::path::remove_dots(p, true);
    abs = std::string(p.str());
    if (abs.compare(0, gRoot.size(), gRoot) != 0)
      return false;
    if (rel) {
      *rel = abs.substr(gRoot.size());
      while (!rel->empty() && (*rel)[0] == '/')
        rel->erase(0, 1);
    }
    return true;
  }

  std::string locStr(SourceLocation L) {
    if (L.isInvalid())
      return "?";
    SourceLocation E = SM.getExpansionLoc(L);
    PresumedLoc P = SM.getPresumedLoc(E);
    if (P.isInvalid())
      return "?";
    std::string rel;
    if (!inRepo(L, &rel))
      rel = P.getFilename();
    return rel + ":" + std::to_string(P.getLine()) + ":" + std::to_string(P.getColumn());
  }

  json::Array macros(SourceLocation L) {
    json::Array A;
    std::string last;
    int guard = 0;
    while (L.isValid() && L.isMacroID() && guard++ < 32) {
      StringRef n = Lexer::getImmediateMacroName(L, SM, LO);
      if (!n.empty() && n.str() != last) {
        A.push_back(n.str());
        last = n.str();
      }
      L = SM.getImmediateExpansionRange(L).getBegin();
    }
    return A;
  }

  // ---- types -----------------------------------------------------------
  std::string typeStr(QualType T) {
    if (T.isNull())
      return "?";
    return T.getAsString(Ctx.getPrintingPolicy());
  }

  std::string recordName(QualType T) {
    if (T.isNull())
      return "";
    if (const PointerType *PT = T->getAs<PointerType>())
      T = PT->getPointeeType();
    if (const RecordType *RT = T->getAs<RecordType>()) {
      const RecordDecl *RD = RT->getDecl();
      if (!RD->getName().empty())
        return RD->getName().str();
      if (const TypedefNameDecl *TD = RD->getTypedefNameForAnonDecl())
        return TD->getName().str();
      return "<anon>";
    }
    return "";
  }

  // ---- expression trees ------------------------------------------------
  std::map<const Stmt *, int> Ids;
  int NextId = 1;
  int idOf(const Stmt *S) {
    auto it = Ids.find(S);
    if (it != Ids.end())
      return it->second;
    Ids[S] = NextId;
    return NextId++;
  }

  static const Expr *strip(const Expr *E) {
    while (E) {
      const Expr *N = E->IgnoreParenImpCasts();
      if (const auto *CE = dyn_cast<ConstantExpr>(N))
        N = CE->getSubExpr();
      if (N == E)
        break;
      E = N;
    }
    return E;
  }

  void addConst(json::Object &O, const Expr *E) {
    if (!E || E->isValueDependent())
      return;
    if (!E->getType()->isIntegralOrEnumerationType())
      return;
    Expr::EvalResult R;
    if (E->EvaluateAsInt(R, Ctx, Expr::SE_NoSideEffects)) {
      llvm::APSInt V = R.Val.getInt();
      llvm::SmallString<32> s;
      V.toString(s, 10);
      O["cv"] = std::string(s.str());
    }
  }

  json::Value tree(const Expr *E0, int depth = 0) {
    const Expr *E = strip(E0);
    json::Object O;
    if (!E) {
      return nullptr;
    }
    if (depth > 60) {
      O["k"] = "deep";
      return std::move(O);
    }
    if (const auto *IL = dyn_cast<IntegerLiteral>(E)) {
      O["k"] = "int";
      llvm::SmallString<32> s;
      IL->getValue().toString(s, 10, /*Signed=*/false);
      O["v"] = std::string(s.str());
      json::Array M = macros(IL->getBeginLoc());
      if (!M.empty())
        O["mac"] = std::move(M);
      return std::move(O);
    }
    if (const auto *CL = dyn_cast<CharacterLiteral>(E)) {
      O["k"] = "int";
      O["v"] = std::to_string(CL->getValue());
      O["char"] = true;
      return std::move(O);
    }
    if (const auto *SL = dyn_cast<StringLiteral>(E)) {
      O["k"] = "str";
      if (SL->getCharByteWidth() == 1) {
        std::string b = SL->getBytes().str();
        std::string safe;
        for (unsigned char c : b) {
          if (c >= 32 && c < 127)
            safe.push_back((char)c);
          else {
            char buf[8];
            snprintf(buf, sizeof buf, "\\x%02x", c);
            safe += buf;
          }
        }
        O["v"] = safe;
      }
      return std::move(O);
    }
    if (isa<FloatingLiteral>(E)) {
      O["k"] = "float";
      return std::move(O);
    }
    if (const auto *DR = dyn_cast<DeclRefExpr>(E)) {
      const ValueDecl *D = DR->getDecl();
      if (const auto *VD = dyn_cast<VarDecl>(D)) {
        O["k"] = "var";
        O["n"] = VD->getName().str();
        O["t"] = typeStr(VD->getType());
        if (isa<ParmVarDecl>(VD))
          O["kind"] = "param";
        else if (VD->hasGlobalStorage())
          O["kind"] = VD->isStaticLocal() ? "slocal" : "global";
        else
          O["kind"] = "local";
        return std::move(O);
      }
      if (const auto *FD = dyn_cast<FunctionDecl>(D)) {
        O["k"] = "fn";
        O["n"] = FD->getName().str();
        return std::move(O);
      }
      if (const auto *EC = dyn_cast<EnumConstantDecl>(D)) {
        O["k"] = "int";
        llvm::SmallString<32> s;
        EC->getInitVal().toString(s, 10);
        O["v"] = std::string(s.str());
        O["enum"] = EC->getName().str();
        json::Array M = macros(DR->getBeginLoc());
        if (!M.empty())
          O["mac"] = std::move(M);
        return std::move(O);
      }
      O["k"] = "ref";
      O["n"] = D->getNameAsString();
      return std::move(O);
    }
    if (const auto *ME = dyn_cast<MemberExpr>(E)) {
      O["k"] = "mem";
      O["f"] = ME->getMemberDecl()->getNameAsString();
      O["arrow"] = ME->isArrow();
      O["s"] = recordName(ME->getBase()->getType());
      O["t"] = typeStr(ME->getType());
      O["b"] = tree(ME->getBase(), depth + 1);
      return std::move(O);
    }
    if (const auto *AE = dyn_cast<AtomicExpr>(E)) {
      O["k"] = "atomic";
      O["id"] = idOf(AE);
      O["op"] = (int)AE->getOp();
      O["name"] = spelledToken(AE->getBeginLoc());
      json::Array A;
      // sub-expressions are stored as ptr, order, [val1, ...]
      for (const Stmt *S : const_cast<AtomicExpr *>(AE)->children())
        A.push_back(tree(cast<Expr>(S), depth + 1));
      O["a"] = std::move(A);
      json::Array M = macros(AE->getBeginLoc());
      if (!M.empty())
        O["mac"] = std::move(M);
      return std::move(O);
    }
    if (const auto *CE = dyn_cast<CallExpr>(E)) {
      O["k"] = "call";
      O["id"] = idOf(CE);
      if (const FunctionDecl *FD = CE->getDirectCallee())
        O["f"] = FD->getName().str();
      else
        O["fp"] = tree(CE->getCallee(), depth + 1);
      json::Array A;
      for (const Expr *Arg : CE->arguments())
        A.push_back(tree(Arg, depth + 1));
      O["a"] = std::move(A);
      O["t"] = typeStr(CE->getType());
      json::Array M = macros(CE->getBeginLoc());
      if (!M.empty())
        O["mac"] = std::move(M);
      return std::move(O);
    }
    if (const auto *UO = dyn_cast<UnaryOperator>(E)) {
      O["k"] = "un";
      O["op"] = UnaryOperator::getOpcodeStr(UO->getOpcode()).str();
      if (UO->isPostfix())
        O["post"] = true;
      O["x"] = tree(UO->getSubExpr(), depth + 1);
      if (!UO->isIncrementDecrementOp())
        addConst(O, UO);
      return std::move(O);
    }
    if (const auto *BO = dyn_cast<BinaryOperator>(E)) {
      O["k"] = "bin";
      O["op"] = BO->getOpcodeStr().str();
      O["l"] = tree(BO->getLHS(), depth + 1);
      O["r"] = tree(BO->getRHS(), depth + 1);
      if (!BO->isAssignmentOp())
        addConst(O, BO);
      return std::move(O);
    }
    if (const auto *CO = dyn_cast<ConditionalOperator>(E)) {
      O["k"] = "cond";
      O["c"] = tree(CO->getCond(), depth + 1);
      O["a"] = tree(CO->getTrueExpr(), depth + 1);
      O["b"] = tree(CO->getFalseExpr(), depth + 1);
      return std::move(O);
    }
    if (const auto *AS = dyn_cast<ArraySubscriptExpr>(E)) {
      O["k"] = "idx";
      O["b"] = tree(AS->getBase(), depth + 1);
      O["i"] = tree(AS->getIdx(), depth + 1);
      O["t"] = typeStr(AS->getType());
      return std::move(O);
    }
    if (const auto *CS = dyn_cast<CStyleCastExpr>(E)) {
      O["k"] = "cast";
      O["t"] = typeStr(CS->getType());
      O["x"] = tree(CS->getSubExpr(), depth + 1);
      addConst(O, CS);
      json::Array M = macros(CS->getBeginLoc());
      if (!M.empty())
        O["mac"] = std::move(M);
      return std::move(O);
    }
    if (const auto *UE = dyn_cast<UnaryExprOrTypeTraitExpr>(E)) {
      O["k"] = "sizeof";
      if (UE->isArgumentType())
        O["of"] = typeStr(UE->getArgumentType());
      else
        O["x"] = tree(UE->getArgumentExpr(), depth + 1);
      addConst(O, UE);
      return std::move(O);
    }
    if (const auto *IL = dyn_cast<InitListExpr>(E)) {
      O["k"] = "init";
      json::Array A;
      for (const Expr *I : IL->inits())
        A.push_back(tree(I, depth + 1));
      O["items"] = std::move(A);
      return std::move(O);
    }
    if (const auto *SE = dyn_cast<StmtExpr>(E)) {
      O["k"] = "stmtexpr";
      (void)SE;
      return std::move(O);
    }
    if (const auto *CL = dyn_cast<CompoundLiteralExpr>(E)) {
      O["k"] = "complit";
      O["x"] = tree(CL->getInitializer(), depth + 1);
      return std::move(O);
    }
    if (isa<ImplicitValueInitExpr>(E)) {
      O["k"] = "int";
      O["v"] = "0";
      O["implicit"] = true;
      return std::move(O);
    }
    O["k"] = "other";
    O["c"] = E->getStmtClassName();
    addConst(O, E);
    return std::move(O);
  }

  std::string spelledToken(SourceLocation L) {
    SourceLocation S = SM.getSpellingLoc(L);
    if (S.isInvalid())
      return "";
    return Lexer::getSourceText(CharSourceRange::getTokenRange(S, S), SM, LO).str();
  }

  // ---- access mode of an lvalue expression --------------------------------
  // r = value read, w = assigned, rw = read-modify-write, addr = address taken,
  // path = only a prefix of a longer lvalue (x.a in x.a.b), arr = array decays
  std::string accessMode(const Expr *E, ParentMap &PM) {
    const Stmt *Cur = E;
    const Stmt *P = PM.getParent(Cur);
    while (P && (isa<ParenExpr>(P))) {
      Cur = P;
      P = PM.getParent(P);
    }
    if (!P)
      return "r";
    if (const auto *ICE = dyn_cast<ImplicitCastExpr>(P)) {
      if (ICE->getCastKind() == CK_LValueToRValue)
        return "r";
      if (ICE->getCastKind() == CK_ArrayToPointerDecay)
        return "arr";
      return "r";
    }
    if (const auto *ME = dyn_cast<MemberExpr>(P)) {
      if (!ME->isArrow() && ME->getBase()->IgnoreParens() == Cur)
        return "path";
      return "r";
    }
    if (const auto *UO = dyn_cast<UnaryOperator>(P)) {
      if (UO->getOpcode() == UO_AddrOf)
        return "addr";
      if (UO->isIncrementDecrementOp())
        return "rw";
      return "r";
    }
    if (const auto *BO = dyn_cast<BinaryOperator>(P)) {
      if (BO->isAssignmentOp() && BO->getLHS()->IgnoreParens() == Cur)
        return BO->getOpcode() == BO_Assign ? "w" : "rw";
      return "r";
    }
    if (const auto *AS = dyn_cast<ArraySubscriptExpr>(P)) {
      (void)AS;
      return "r";
    }
    if (isa<UnaryExprOrTypeTraitExpr>(P))
      return "sizeof";
    return "r";
  }

  // how is the value of expression E used by its parent?
  std::string useKind(const Expr *E, ParentMap &PM) {
    const Stmt *Cur = E;
    const Stmt *P = PM.getParent(Cur);
    while (P && (isa<ParenExpr>(P) || isa<ImplicitCastExpr>(P) || isa<ConstantExpr>(P) ||
                 isa<ExprWithCleanups>(P))) {
      Cur = P;
      P = PM.getParent(P);
    }
    if (!P)
      return "discard";
    if (const auto *CS = dyn_cast<CStyleCastExpr>(P)) {
      if (CS->getType()->isVoidType())
        return "voidcast";
      return "expr";
    }
    if (isa<CompoundStmt>(P) || isa<LabelStmt>(P) || isa<CaseStmt>(P) || isa<DefaultStmt>(P))
      return "discard";
    if (const auto *IS = dyn_cast<IfStmt>(P))
      return IS->getCond() == Cur ? "cond" : "discard";
    if (const auto *WS = dyn_cast<WhileStmt>(P))
      return WS->getCond() == Cur ? "cond" : "discard";
    if (const auto *DS = dyn_cast<DoStmt>(P))
      return DS->getCond() == Cur ? "cond" : "discard";
    if (const auto *FS = dyn_cast<ForStmt>(P))
      return FS->getCond() == Cur ? "cond" : "discard";
    if (const auto *SS = dyn_cast<SwitchStmt>(P))
      return SS->getCond() == Cur ? "cond" : "discard";
    if (isa<ReturnStmt>(P))
      return "ret";
    if (isa<DeclStmt>(P))
      return "init";
    if (const auto *BO = dyn_cast<BinaryOperator>(P)) {
      if (BO->getOpcode() == BO_Comma && BO->getLHS() == Cur)
        return "discard";
      if (BO->isAssignmentOp())
        return BO->getRHS() == Cur ? "assign" : "expr";
      return "expr";
    }
    if (isa<CallExpr>(P))
      return "arg";
    return "expr";
  }

  // ---- events ------------------------------------------------------------
  void emitEvents(const Stmt *S, ParentMap &PM, json::Array &Ev) {
    if (const auto *E = dyn_cast<Expr>(S)) {
      if (const auto *AE = dyn_cast<AtomicExpr>(E)) {
        json::Object O;
        O["e"] = "atomic";
        O["id"] = idOf(AE);
        O["op"] = (int)AE->getOp();
        O["name"] = spelledToken(AE->getBeginLoc());
        O["p"] = tree(AE->getPtr());
        O["order"] = tree(AE->getOrder());
        O["use"] = useKind(AE, PM);
        O["l"] = locStr(AE->getBeginLoc());
        json::Array M = macros(AE->getBeginLoc());
        if (!M.empty())
          O["mac"] = std::move(M);
        Ev.push_back(std::move(O));
        return;
      }
      if (const auto *CE = dyn_cast<CallExpr>(E)) {
        json::Object O;
        O["e"] = "call";
        O["id"] = idOf(CE);
        if (const FunctionDecl *FD = CE->getDirectCallee())
          O["f"] = FD->getName().str();
        else
          O["fp"] = tree(CE->getCallee());
        json::Array A;
        for (const Expr *Arg : CE->arguments())
          A.push_back(tree(Arg));
        O["a"] = std::move(A);
        O["t"] = typeStr(CE->getType());
        O["use"] = useKind(CE, PM);
        O["l"] = locStr(CE->getBeginLoc());
        json::Array M = macros(CE->getBeginLoc());
        if (!M.empty())
          O["mac"] = std::move(M);
        Ev.push_back(std::move(O));
        return;
      }
      if (const auto *ME = dyn_cast<MemberExpr>(E)) {
        json::Object O;
        O["e"] = "mem";
        O["s"] = recordName(ME->getBase()->getType());
        O["f"] = ME->getMemberDecl()->getNameAsString();
        O["arrow"] = ME->isArrow();
        O["b"] = tree(ME->getBase());
        O["t"] = typeStr(ME->getType());
        O["mode"] = accessMode(ME, PM);
        O["l"] = locStr(ME->getMemberLoc());
        json::Array M = macros(ME->getBeginLoc());
        if (!M.empty())
          O["mac"] = std::move(M);
        Ev.push_back(std::move(O));
        return;
      }
      if (const auto *BO = dyn_cast<BinaryOperator>(E)) {
        if (BO->isAssignmentOp()) {
          json::Object O;
          O["e"] = "asg";
          O["op"] = BO->getOpcodeStr().str();
          O["lhs"] = tree(BO->getLHS());
          O["rhs"] = tree(BO->getRHS());
          O["l"] = locStr(BO->getOperatorLoc());
          Ev.push_back(std::move(O));
        }
        BinaryOperatorKind K = BO->getOpcode();
        if (K == BO_Shl || K == BO_Shr || K == BO_Div || K == BO_Rem || K == BO_ShlAssign ||
            K == BO_ShrAssign || K == BO_DivAssign || K == BO_RemAssign) {
          json::Object O;
          O["e"] = "arith";
          O["op"] = BO->getOpcodeStr().str();
          O["lhs"] = tree(BO->getLHS());
          O["rhs"] = tree(BO->getRHS());
          O["lt"] = typeStr(BO->getLHS()->getType());
          O["l"] = locStr(BO->getOperatorLoc());
          Ev.push_back(std::move(O));
        }
        return;
      }
      if (const auto *UO = dyn_cast<UnaryOperator>(E)) {
        if (UO->isIncrementDecrementOp()) {
          json::Object O;
          O["e"] = "inc";
          O["op"] = UnaryOperator::getOpcodeStr(UO->getOpcode()).str();
          O["x"] = tree(UO->getSubExpr());
          O["l"] = locStr(UO->getOperatorLoc());
          Ev.push_back(std::move(O));
        } else if (UO->getOpcode() == UO_Deref) {
          json::Object O;
          O["e"] = "deref";
          O["x"] = tree(UO->getSubExpr());
          O["mode"] = accessMode(UO, PM);
          O["l"] = locStr(UO->getOperatorLoc());
          Ev.push_back(std::move(O));
        }
        return;
      }
      if (const auto *AS = dyn_cast<ArraySubscriptExpr>(E)) {
        json::Object O;
        O["e"] = "idx";
        O["b"] = tree(AS->getBase());
        O["i"] = tree(AS->getIdx());
        O["mode"] = accessMode(AS, PM);
        O["l"] = locStr(AS->getRBracketLoc());
        Ev.push_back(std::move(O));
        return;
      }
      if (const auto *CS = dyn_cast<CStyleCastExpr>(E)) {
        if (CS->getType()->isVoidType()) {
          json::Object O;
          O["e"] = "void";
          O["x"] = tree(CS->getSubExpr());
          O["l"] = locStr(CS->getBeginLoc());
          json::Array M = macros(CS->getBeginLoc());
          if (!M.empty())
            O["mac"] = std::move(M);
          Ev.push_back(std::move(O));
        }
        return;
      }
      return;
    }
    if (const auto *DS = dyn_cast<DeclStmt>(S)) {
      for (const Decl *D : DS->decls()) {
        if (const auto *VD = dyn_cast<VarDecl>(D)) {
          json::Object O;
          O["e"] = "decl";
          O["n"] = VD->getName().str();
          O["t"] = typeStr(VD->getType());
          if (VD->hasGlobalStorage())
            O["static"] = true;
          if (VD->hasInit())
            O["init"] = tree(VD->getInit());
          O["l"] = locStr(VD->getLocation());
          Ev.push_back(std::move(O));
        }
      }
      return;
    }
    if (const auto *RS = dyn_cast<ReturnStmt>(S)) {
      json::Object O;
      O["e"] = "ret";
      if (RS->getRetValue())
        O["x"] = tree(RS->getRetValue());
      O["l"] = locStr(RS->getReturnLoc());
      Ev.push_back(std::move(O));
      return;
    }
  }

  // ---- functions -------------------------------------------------------
  json::Value function(const FunctionDecl *FD) {
    json::Object F;
    F["name"] = FD->getName().str();
    std::string rel;
    inRepo(FD->getLocation(), &rel);
    PresumedLoc P = SM.getPresumedLoc(SM.getExpansionLoc(FD->getLocation()));
    F["file"] = rel;
    F["line"] = (int64_t)P.getLine();
    {
      PresumedLoc PE = SM.getPresumedLoc(SM.getExpansionLoc(FD->getBody()->getEndLoc()));
      F["endline"] = (int64_t)(PE.isValid() ? PE.getLine() : 0);
    }
    F["static"] = FD->getStorageClass() == SC_Static;
    F["inline"] = FD->isInlineSpecified();
    F["ret"] = typeStr(FD->getReturnType());
    json::Array Ps;
    for (const ParmVarDecl *PD : FD->parameters()) {
      json::Object O;
      O["n"] = PD->getName().str();
      O["t"] = typeStr(PD->getType());
      Ps.push_back(std::move(O));
    }
    F["params"] = std::move(Ps);

    Ids.clear();
    NextId = 1;

    CFG::BuildOptions BO;
    BO.setAllAlwaysAdd();
    std::unique_ptr<CFG> G = CFG::buildCFG(FD, FD->getBody(), &Ctx, BO);
    if (!G) {
      F["cfg_failed"] = true;
      gFailed = true;
      return std::move(F);
    }
    ParentMap PM(FD->getBody());

    F["entry"] = (int64_t)G->getEntry().getBlockID();
    F["exit"] = (int64_t)G->getExit().getBlockID();
    json::Array Blocks;
    for (const CFGBlock *B : *G) {
      json::Object JB;
      JB["id"] = (int64_t)B->getBlockID();
      json::Array Ev;
      for (const CFGElement &El : *B) {
        if (auto CS = El.getAs<CFGStmt>())
          emitEvents(CS->getStmt(), PM, Ev);
      }
      JB["ev"] = std::move(Ev);
      if (B->hasNoReturnElement())
        JB["noret"] = true;
      if (const Stmt *L = B->getLabel()) {
        json::Object JL;
        if (const auto *CS = dyn_cast<CaseStmt>(L)) {
          JL["case"] = tree(CS->getLHS());
          if (CS->getRHS())
            JL["case_hi"] = tree(CS->getRHS());
        } else if (isa<DefaultStmt>(L)) {
          JL["default"] = true;
        } else if (const auto *LS = dyn_cast<LabelStmt>(L)) {
          JL["label"] = LS->getName();
        }
        JB["label"] = std::move(JL);
      }
      if (const Stmt *T = B->getTerminatorStmt()) {
        json::Object JT;
        JT["k"] = T->getStmtClassName();
        if (const auto *BOp = dyn_cast<BinaryOperator>(T))
          JT["op"] = BOp->getOpcodeStr().str();
        // the condition evaluated *in this block* (for `if (a && b)` the
        // block that evaluates b ends in the IfStmt but decides on b only)
        const Expr *LC = B->getLastCondition();
        if (LC)
          JT["cond"] = tree(LC);
        else if (const Stmt *C = B->getTerminatorCondition())
          if (const auto *CE = dyn_cast<Expr>(C))
            JT["cond"] = tree(CE);
        JT["l"] = locStr(T->getBeginLoc());
        if (const auto *GS = dyn_cast<GotoStmt>(T))
          JT["goto"] = GS->getLabel()->getName().str();
        JB["term"] = std::move(JT);
      }
      json::Array Succ;
      for (auto I = B->succ_begin(), E = B->succ_end(); I != E; ++I) {
        const CFGBlock *S = I->getReachableBlock();
        if (S)
          Succ.push_back((int64_t)S->getBlockID());
        else if (const CFGBlock *U = I->getPossiblyUnreachableBlock()) {
          json::Object JU;
          JU["unreachable"] = (int64_t)U->getBlockID();
          Succ.push_back(std::move(JU));
        } else
          Succ.push_back(nullptr);
      }
      JB["succ"] = std::move(Succ);
      Blocks.push_back(std::move(JB));
    }
    F["blocks"] = std::move(Blocks);
    return std::move(F);
  }
};

class Visitor : public RecursiveASTVisitor<Visitor> {
public:
  Visitor(Extractor &X) : X(X) {}
  Extractor &X;
  json::Array Functions, Globals, Decls;
  json::Object Records, Enums;
  std::set<std::string> SeenRec;

  bool VisitFunctionDecl(FunctionDecl *FD) {
    if (!X.inRepo(FD->getLocation()))
      return true;
    if (FD->doesThisDeclarationHaveABody()) {
      Functions.push_back(X.function(FD));
    } else {
      json::Object O;
      O["name"] = FD->getName().str();
      O["l"] = X.locStr(FD->getLocation());
      O["ret"] = X.typeStr(FD->getReturnType());
      O["noreturn"] = FD->isNoReturn();
      Decls.push_back(std::move(O));
    }
    return true;
  }

  bool VisitRecordDecl(RecordDecl *RD) {
    if (!RD->isCompleteDefinition() || !X.inRepo(RD->getLocation()))
      return true;
    std::string n = RD->getName().str();
    if (n.empty()) {
      if (const TypedefNameDecl *TD = RD->getTypedefNameForAnonDecl())
        n = TD->getName().str();
      else
        return true;
    }
    if (!SeenRec.insert(n).second)
      return true;
    json::Array Fs;
    for (const FieldDecl *F : RD->fields()) {
      json::Object O;
      O["f"] = F->getName().str();
      O["t"] = X.typeStr(F->getType());
      O["l"] = X.locStr(F->getLocation());
      Fs.push_back(std::move(O));
    }
    json::Object R;
    R["fields"] = std::move(Fs);
    R["l"] = X.locStr(RD->getLocation());
    Records[n] = std::move(R);
    return true;
  }

  bool VisitEnumConstantDecl(EnumConstantDecl *EC) {
    if (!X.inRepo(EC->getLocation()))
      return true;
    llvm::SmallString<32> s;
    EC->getInitVal().toString(s, 10);
    json::Object O;
    O["v"] = std::string(s.str());
    if (const auto *ED = dyn_cast<EnumDecl>(EC->getDeclContext())) {
      std::string en = ED->getName().str();
      if (en.empty())
        if (const TypedefNameDecl *TD = ED->getTypedefNameForAnonDecl())
          en = TD->getName().str();
      O["enum"] = en;
    }
    Enums[EC->getName().str()] = std::move(O);
    return true;
  }

  bool VisitVarDecl(VarDecl *VD) {
    if (!VD->isFileVarDecl() || !X.inRepo(VD->getLocation()))
      return true;
    json::Object O;
    O["name"] = VD->getName().str();
    O["t"] = X.typeStr(VD->getType());
    O["l"] = X.locStr(VD->getLocation());
    O["static"] = VD->getStorageClass() == SC_Static;
    if (VD->hasInit())
      O["init"] = X.tree(VD->getInit());
    Globals.push_back(std::move(O));
    return true;
  }
};

class Consumer : public ASTConsumer {
public:
  std::string Unit;
  Consumer(std::string U) : Unit(std::move(U)) {}
  void HandleTranslationUnit(ASTContext &Ctx) override {
    if (Ctx.getDiagnostics().hasErrorOccurred()) {
      gFailed = true;
      return;
    }
    Extractor X(Ctx);
    Visitor V(X);
    V.TraverseDecl(Ctx.getTranslationUnitDecl());
    json::Object Root;
    Root["unit"] = Unit;
    Root["functions"] = std::move(V.Functions);
    Root["records"] = std::move(V.Records);
    Root["enums"] = std::move(V.Enums);
    Root["globals"] = std::move(V.Globals);
    Root["decls"] = std::move(V.Decls);
    std::error_code EC;
    llvm::raw_fd_ostream OS(gOut, EC);
    if (EC) {
      llvm::errs() << "cannot write " << gOut << ": " << EC.message() << "\n";
      gFailed = true;
      return;
    }
    OS << json::Value(std::move(Root));
  }
};

class Action : public ASTFrontendAction {
public:
  std::unique_ptr<ASTConsumer> CreateASTConsumer(CompilerInstance &CI, StringRef File) override {
    std::string rel = File.str();
    if (rel.compare(0, gRoot.size(), gRoot) == 0) {
      rel = rel.substr(gRoot.size());
      while (!rel.empty() && rel[0] == '/')
        rel.erase(0, 1);
    }
    return std::make_unique<Consumer>(rel);
  }
};

class Factory : public tooling::FrontendActionFactory {
public:
  std::unique_ptr<FrontendAction> create() override { return std::make_unique<Action>(); }
};

} // namespace

int main(int argc, const char **argv) {
  if (argc < 5) {
    llvm::errs() << "usage: lcdbfacts <repo-root> <out.json> <source.c> -- <flags...>\n";
    return 2;
  }
  gRoot = argv[1];
  while (gRoot.size() > 1 && gRoot.back() == '/')
    gRoot.pop_back();
  gOut = argv[2];
  std::string Src = argv[3];
  std::vector<std::string> Flags;
  int i = 4;
  if (std::string(argv[i]) == "--")
    i++;
  for (; i < argc; i++)
    Flags.push_back(argv[i]);
  tooling::FixedCompilationDatabase DB(".", Flags);
  tooling::ClangTool Tool(DB, {Src});
  Factory F;
  int rc = Tool.run(&F);
  if (rc != 0 || gFailed)
    return 1;
  return 0;
}
