#!/usr/bin/env python3
"""Writes MANIFEST.json from the table below (kept in one place so that the
claimed / not-applicable split cannot drift)."""
import json, os, sys
HERE = os.path.dirname(os.path.dirname(os.path.abspath(__file__)))
sys.path.insert(0, HERE)
from sa.claims import CLAIMS, NOT_APPLICABLE

checks = []
for pid, c in sorted(CLAIMS.items()):
    checks.append({
        "property_id": pid,
        "quick_cmd": "bin/check %s --tier quick" % pid,
        "thorough_cmd": "bin/check %s --tier thorough" % pid,
        "evidence_file": "evidence/%s.json" % pid,
        "replay_cmd_template": "bin/check %s --replay {path}" % pid,
        "engine": "lcdb-static",
        "level_claimed": {"category": "other", "text": c["text"], "design_ref": c["design_ref"]},
        "level_note": c["note"],
        "technique": c["technique"],
    })
m = {
    "version": 1,
    "setup_cmd": "python3 -m sa.build",
    "hooks": {"guard": "LCDB_VERIF", "enable": "none: the analysis reads unmodified source; no hook is compiled in",
              "baseline_off_cmd": "cmake --build /repo/_build && ctest --test-dir /repo/_build -j8 --timeout 900",
              "source_commits": [], "add_only": True},
    "engines": [{"name": "lcdb-static", "path": "sa/", "serves_properties": sorted(CLAIMS),
                 "kind_free_text": "static analysis: libTooling (clang 14) CFG/fact extractor over the compile "
                                   "database + repo-specific rule engines in Python (path-sensitive must-pass-through, "
                                   "guard dominance, lock state, status discipline, sibling agreement, compile-time witnesses)"}],
    "checks": checks,
    "not_applicable": [{"property_id": k, "reason": v} for k, v in sorted(NOT_APPLICABLE.items())],
    "notes": "Every check decides structural necessary conditions of its property from /repo's current source; "
             "see DESIGN.md section 5 for the decided / not decided split per property. Exit 2 = analysis broken "
             "(anchor vanished), never a verdict.",
}
with open(os.path.join(HERE, "MANIFEST.json"), "w") as f:
    json.dump(m, f, indent=1)
    f.write("\n")
print("wrote MANIFEST.json with %d checks, %d not applicable" % (len(checks), len(m["not_applicable"])))
