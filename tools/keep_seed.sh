#!/bin/bash
# keep_seed.sh <worktree> <seed-subdir> <id> : copy a confirmed seed into /verif/seeded/<id>/
WT=$1; SD=$2; ID=$3
D=/verif/seeded/$ID; mkdir -p "$D"
cp "$WT/$SD/patch.diff" "$D/"
for f in "$WT/$SD"/*; do
  case "$(basename $f)" in patch.diff|verify.log|ctest.log|demo|*.o) ;; *) [ -f "$f" ] && [ $(stat -c %s "$f") -lt 200000 ] && cp "$f" "$D/";; esac
done
tail -3 "$WT/$SD/verify.log" > "$D/verified.txt"
ls "$D"
