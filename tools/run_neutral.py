#!/usr/bin/env python3
"""Runs every behaviour-preserving variant (neutral/<id>/patch.diff) against
all checks on a scratch copy of /repo.  Every check must stay silent: exit 0
is right, exit 2 (analysis broken: an anchor moved, re-confirm the tables) is
tolerated and listed, exit 1 is a false alarm and fails this tool.
NEUTRAL_PROPS="C01 C15" restricts the checks (result.json is then left alone), NEUTRAL_JOBS sets the parallelism."""
import json, os, shutil, subprocess, sys, tempfile
from concurrent.futures import ThreadPoolExecutor
HERE = os.path.dirname(os.path.dirname(os.path.abspath(__file__)))
sys.path.insert(0, HERE)
from sa.claims import CLAIMS

def run(nid):
    sd = os.path.join(HERE, "neutral", nid)
    d = tempfile.mkdtemp(prefix="lcdb-neutral.", dir="/tmp")
    try:
        for sub in ("src", "include"):
            shutil.copytree(os.path.join("/repo", sub), os.path.join(d, sub))
        r = subprocess.run(["patch", "-p1", "-s", "-d", d, "-i", os.path.join(sd, "patch.diff")], capture_output=True, text=True)
        if r.returncode != 0:
            return nid, {"error": "patch does not apply: " + r.stdout + r.stderr}
        env = dict(os.environ, LCDB_REPO=d, LCDB_SCRATCH_OF="/repo")
        out = {}
        for p in (os.environ.get("NEUTRAL_PROPS", "").split() or sorted(CLAIMS)):
            r = subprocess.run([sys.executable, "-m", "sa.core", p, "--no-evidence"], cwd=HERE, env=env, capture_output=True, text=True)
            if r.returncode != 0:
                lines = [l for l in r.stdout.splitlines() if "violated: rule=" in l or "ANALYSIS-BROKEN" in l or "broken" in l.lower()]
                out[p] = {"exit": r.returncode, "lines": lines[:6] or (r.stdout + r.stderr).splitlines()[-3:]}
        return nid, out
    finally:
        shutil.rmtree(d, ignore_errors=True)

def main():
    only = sys.argv[1:]
    ids = [x for x in sorted(os.listdir(os.path.join(HERE, "neutral"))) if os.path.isdir(os.path.join(HERE, "neutral", x))]
    ids = [x for x in ids if not only or x in only]
    alarms = 0
    with ThreadPoolExecutor(int(os.environ.get("NEUTRAL_JOBS", "5"))) as ex:
        for nid, res in ex.map(run, ids):
            if "error" in res:
                print("%-28s ERROR %s" % (nid, res["error"])); alarms += 1; continue
            fa = {p: v for p, v in res.items() if v["exit"] == 1}
            br = {p: v for p, v in res.items() if v["exit"] not in (0, 1)}
            if not os.environ.get("NEUTRAL_PROPS"):
                json.dump({"variant": nid, "false_alarms": fa, "analysis_broken": br}, open(os.path.join(HERE, "neutral", nid, "result.json"), "w"), indent=1)
            print("%-28s %s%s" % (nid, "silent" if not fa else "FALSE-ALARM " + ",".join(sorted(fa)),
                                   (" broken:" + ",".join(sorted(br))) if br else ""))
            for p, v in list(fa.items()) + list(br.items()):
                for l in v["lines"][:3]:
                    print("      %s %s" % (p, l[:300]))
            alarms += len(fa)
    return 1 if alarms else 0
if __name__ == "__main__":
    sys.exit(main())
