#include <stdio.h>
#include <stdlib.h>
#include <string.h>
#include <unistd.h>
#include <sys/wait.h>
#include <lcdb.h>
/* F2 probe: a failed second open in the same process must not let ANOTHER process open the db.
   The other process is a fresh exec (fork alone would inherit the in-process lock table). */
static int other_process_open(const char *self, const char *path) {
  pid_t p = fork();
  if (p == 0) { execl(self, self, "child", path, (char *)0); _exit(3); }
  int st; waitpid(p, &st, 0);
  return WIFEXITED(st) ? WEXITSTATUS(st) : 2;
}
int main(int argc, char **argv) {
  ldb_dbopt_t o = *ldb_dbopt_default; ldb_t *db, *db2; int rc;
  if (argc == 3 && strcmp(argv[1], "child") == 0) {
    o.create_if_missing = 0;
    rc = ldb_open(argv[2], &o, &db);
    if (rc == LDB_OK) { ldb_close(db); return 0; }
    return 1;
  }
  const char *path = argv[1];
  o.create_if_missing = 1;
  rc = ldb_open(path, &o, &db);
  if (rc != LDB_OK) { printf("open1 failed %d\n", rc); return 2; }
  printf("other process opens while held (before): %s\n", other_process_open(argv[0], path) == 0 ? "SUCCEEDED (bad)" : "refused (good)");
  rc = ldb_open(path, &o, &db2);
  printf("second open in same process: rc=%d (%s)\n", rc, ldb_strerror(rc));
  int c = other_process_open(argv[0], path);
  printf("other process opens while first handle still open (after failed 2nd open): %s\n", c == 0 ? "SUCCEEDED (DEFECT)" : "refused (good)");
  ldb_close(db);
  return c == 0 ? 1 : 0;
}
