/* F1 (C19): after ldb_repair, ldb_get returns a stale value.
 *
 * repair.c:write_descriptor puts every surviving table at level 0 under its
 * on-disk file number; level-0 point lookups consult files by descending file
 * number (version_set.c:newest_first) and stop at the first hit. A compaction
 * output that rewrites OLD data gets a NEW (higher) number, so it shadows a
 * lower-numbered file holding NEWER data.
 *
 * Build and run (scratch dir outside /repo and /verif):
 *   cc -I/repo/include repro.c /repo/_build/liblcdb.a -lpthread -o /tmp/f1 && /tmp/f1 /tmp/f1db
 * Expected on the pinned tree:
 *   after repair get -> v1-old   (WRONG, newest surviving value is v2-new)
 *   iterator         -> v2-new   (merging iterator orders by sequence: right)
 */
#include <stdio.h>
#include <stdlib.h>
#include <string.h>
#include <lcdb.h>

int ldb_test_compact_memtable(ldb_t *db);
void ldb_test_compact_range(ldb_t *db, int level,
                            const ldb_slice_t *begin, const ldb_slice_t *end);

static void show(ldb_t *db, const char *tag) {
  char *v;
  ldb_property(db, "leveldb.sstables", &v);
  printf("== %s\n%s\n", tag, v);
  ldb_free(v);
}

int main(int argc, char **argv) {
  const char *dir = argc > 1 ? argv[1] : "/tmp/f1db";
  ldb_dbopt_t opt = *ldb_dbopt_default;
  ldb_slice_t k, v, r;
  char cmd[512];
  ldb_iter_t *it;
  ldb_t *db;
  int rc;

  opt.create_if_missing = 1;

  sprintf(cmd, "rm -rf %s", dir);
  system(cmd);

  rc = ldb_open(dir, &opt, &db);
  if (rc) { printf("open %d\n", rc); return 2; }

  k = ldb_string("k");

  v = ldb_string("v1-old");
  ldb_put(db, &k, &v, 0);
  ldb_test_compact_memtable(db); /* -> table A (pushed to level 2) */

  v = ldb_string("v2-new");
  ldb_put(db, &k, &v, 0);
  ldb_test_compact_memtable(db); /* -> table B (level 1), number(B) > number(A) */

  /* Rewrite only the OLD data: level 2 -> 3 gives table C, number(C) > number(B). */
  ldb_test_compact_range(db, 2, NULL, NULL);
  show(db, "before repair");

  rc = ldb_get(db, &k, &r, 0);
  printf("before repair get rc=%d val=%.*s\n", rc, (int)r.size, (char *)r.data);
  ldb_free(r.data);
  ldb_close(db);

  sprintf(cmd, "rm -f %s/MANIFEST-* %s/CURRENT", dir, dir);
  system(cmd);

  rc = ldb_repair(dir, &opt);
  printf("repair rc=%d\n", rc);

  rc = ldb_open(dir, &opt, &db);
  if (rc) { printf("open2 %d\n", rc); return 2; }
  show(db, "after repair");

  rc = ldb_get(db, &k, &r, 0);
  printf("after repair get rc=%d val=%.*s\n", rc, (int)r.size, (char *)r.data);
  rc = (rc == 0 && r.size == 6 && memcmp(r.data, "v2-new", 6) == 0) ? 0 : 1;
  ldb_free(r.data);

  it = ldb_iterator(db, 0);
  for (ldb_iter_first(it); ldb_iter_valid(it); ldb_iter_next(it)) {
    ldb_slice_t a = ldb_iter_key(it), b = ldb_iter_value(it);
    printf("iterator %.*s=%.*s\n", (int)a.size, (char *)a.data,
                                   (int)b.size, (char *)b.data);
  }
  ldb_iter_destroy(it);
  ldb_close(db);

  sprintf(cmd, "rm -rf %s", dir);
  system(cmd);

  printf(rc ? "F1 REPRODUCED: stale value after repair\n" : "F1 not reproduced\n");
  return rc;
}
